"""Reach measure: which cells of the two status transition tables (orquesta.machines) do the
simulated runs of the registered checks actually look up?  The tables are wrapped in recording
dicts (in this process only; /repo is untouched), every property's evaluate() is run for N seeds,
and the visited / defined cells are reported per table and row, with the unvisited cells listed.
usage: cellcov.py [n_seeds_per_property] [props...]     (never fails; prints a JSON summary last)"""
import sys, json, collections, concurrent.futures, multiprocessing
sys.path.insert(0, "/verif")
from orquesta import machines                      # noqa: E402
from dst import props                              # noqa: E402
from dst.kernel import derive_seed                 # noqa: E402

HITS = collections.Counter()


class Rec(dict):
    def __init__(self, table, row, d):
        dict.__init__(self, d)
        self._t, self._r = table, row

    def __getitem__(self, k):
        HITS[(self._t, self._r, k)] += 1
        return dict.__getitem__(self, k)


def wrap():
    for tname in ("WORKFLOW_STATE_MACHINE_DATA", "TASK_STATE_MACHINE_DATA"):
        t = getattr(machines, tname)
        for row in list(t.keys()):
            if not isinstance(t[row], Rec):
                t[row] = Rec(tname, row, t[row])


def work(args):
    prop, seeds = args
    wrap()
    HITS.clear()
    P = props.get(prop)
    for s in seeds:
        try:
            P.evaluate(s, "quick")
        except Exception:  # noqa
            pass
    return prop, dict(("|".join(map(str, k)), v) for k, v in HITS.items())


def main():
    n = int(sys.argv[1]) if len(sys.argv) > 1 else 600
    plist = sys.argv[2:] or [p for p in props.ALL_PROPS if p not in ("C14", "C16", "C20")]
    jobs = []
    for p in plist:
        seeds = [derive_seed(4242, p, i) for i in range(n)]
        for c in range(4):
            jobs.append((p, seeds[c::4]))
    total = collections.Counter()
    per_prop = collections.defaultdict(set)
    with concurrent.futures.ProcessPoolExecutor(max_workers=16, mp_context=multiprocessing.get_context("fork")) as ex:
        for prop, hits in ex.map(work, jobs):
            for k, v in hits.items():
                total[k] += v
                per_prop[k].add(prop)
    import os
    show = os.environ.get("CELLCOV_SHOW")
    if show:
        for k in sorted(total):
            if show in k:
                print("hits %-90s %6d  %s" % (k, total[k], ",".join(sorted(per_prop[k]))))
    summary = {}
    for tname in ("WORKFLOW_STATE_MACHINE_DATA", "TASK_STATE_MACHINE_DATA"):
        t = getattr(machines, tname)
        cells = [(row, ev) for row in t for ev in t[row]]
        seen = [c for c in cells if total.get("%s|%s|%s" % (tname, c[0], c[1]))]
        print("%s: %d of %d defined cells visited" % (tname, len(seen), len(cells)))
        missing = collections.defaultdict(list)
        for row, ev in cells:
            if (row, ev) not in seen:
                missing[row].append("%s->%s" % (ev, t[row][ev]))
        for row in t:
            if missing[row]:
                print("  row %-10s unvisited (%d of %d): %s" % (row, len(missing[row]), len(t[row]), ", ".join(missing[row])))
        summary[tname] = {"defined": len(cells), "visited": len(seen),
                          "unvisited": dict((str(r), v) for r, v in missing.items())}
    print(json.dumps({"seeds_per_property": n, "properties": plist, "tables": summary}))


main()
