#!/bin/sh
# usage: trymut.sh <patch.diff> <scratch-worktree> "<props>" [runs]
# Applies the patch in the scratch worktree, runs the checks against it (PYTHONPATH override), undoes it.
P=$1; WT=$2; PROPS=$3; RUNS=${4:-}
git -C $WT checkout -q -- . && git -C $WT apply $P || { echo "apply failed"; exit 2; }
OUT=/tmp/mutout/$(basename $(dirname $P)); mkdir -p $OUT
for p in $PROPS; do
  if [ -n "$RUNS" ]; then R="--runs $RUNS"; else R=""; fi
  out=$(VERIF_SCRATCH=$OUT PYTHONPATH=$WT timeout 1500 /verif/check $p $R 2>&1); rc=$?
  echo "  $p rc=$rc $(echo "$out" | grep -v '^KNOWN' | grep -m2 'clause=\|no violation\|harness' | cut -c1-220 | tr '\n' '|')"
done
git -C $WT checkout -q -- .
