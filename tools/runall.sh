#!/bin/sh
# usage: runall.sh RUNS prop...
R=$1; shift
for p in "$@"; do echo "== $p"; timeout 900 /verif/check $p --runs $R 2>&1 | grep -v "^KNOWN" | cut -c1-400 | tail -12; done
