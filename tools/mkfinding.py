"""Search for a run that hits a given known-finding signature (or a plain violation clause) under a
property's profile, minimise it, and write it to /verif/findings/<name>.json.
usage: mkfinding.py <prop> <kf-id|clause> <out-name> [start] [max]"""
import sys, json, os
sys.path.insert(0, '/verif')
from dst import props, driver, checks
from dst.kernel import derive_seed
prop, want, name = sys.argv[1], sys.argv[2], sys.argv[3]
start = int(sys.argv[4]) if len(sys.argv) > 4 else 0
mx = int(sys.argv[5]) if len(sys.argv) > 5 else 20000
P = props.get(prop)
best = None
for i in range(start, start + mx):
    seed = derive_seed(777, prop, i)
    r = P.evaluate(seed, 'quick')
    e = r.get('error')
    if (r['outcome'] == 'kf' and e.kf == want) or (r['outcome'] == 'violation' and e.clause == want):
        case = r['case']
        kf = e.kf if r['outcome'] == 'kf' else None
        try:
            case = P.shrink(case, {'prop': e.prop, 'clause': e.clause, 'kf': kf})
        except Exception as ex:
            print('shrink failed', ex)
        size = len(case.get('ops') or []) + len(case['ast']['tasks'])
        if best is None or size < best[0]:
            best = (size, case, e, seed)
            print('candidate seed', seed, 'size', size)
        if best[0] <= 12 or i - start > 1500: break
if best is None:
    print('not found'); sys.exit(1)
_, case, e, seed = best
doc = {'property': e.prop, 'clause': e.clause, 'seed': seed, 'tier': 'quick', 'tags': e.tags, 'kf': getattr(e, 'kf', None),
       'violation': {'message': e.msg}, 'case': case, 'replay_with': prop}
os.makedirs('/verif/findings', exist_ok=True)
path = '/verif/findings/%s.json' % name
json.dump(doc, open(path, 'w'), indent=1, default=str)
print('wrote', path, e.prop, e.clause, e.msg[:200])
