import sys, json
sys.path.insert(0, '/verif')
from dst import driver, lang
import yaml
seed = int(sys.argv[1]); props = sys.argv[2].split(',')
faults = json.loads(sys.argv[3]) if len(sys.argv) > 3 else {'poll_skip': 0.1, 'poll_twice': 0.1}
extra = json.loads(sys.argv[4]) if len(sys.argv) > 4 else {}
profile = {'enabled': props, 'faults': faults}
profile.update(extra)
r = driver.run_seed(seed, profile)
print(yaml.safe_dump(lang.render(r['prog']), default_flow_style=False, sort_keys=False))
print('inputs', r['prog'].get('inputs'))
for i, op in enumerate(r['ops']): print(i, json.dumps(op))
print(r['outcome'], r.get('error'))
w = r['world']
print('status', w.status, 'trace', w.status_trace)
if w.snap:
    print('errors', w.snap['errors'])
    for i, s in enumerate(w.snap['state']['sequence']): print('  rec', i, s)
    print('staged', w.snap['state']['staged'])
    print('output', w.snap['output'])
print('foreign', w.foreign[:5])
if r['outcome'] == 'violation' and '--shrink' in sys.argv:
    e = r['error']
    ops, ok = driver.shrink_ops(r['prog'], r['ops'], profile, e.prop, e.clause)
    print('SHRUNK', ok)
    for i, op in enumerate(ops): print(i, json.dumps(op))
