#!/bin/sh
# run the thorough tier of every registered check once (sequentially), print one line each
cd "$(dirname "$0")/.."
S=${1:-20260925}
for p in C01 C02 C03 C04 C05 C06 C07 C08 C09 C10 C11 C12 C13 C15 C17 C18 C19; do
  out=$(VERIF_SEED=$S timeout 2400 ./check $p --tier thorough 2>&1); rc=$?
  echo "thorough seed=$S $p rc=$rc $(echo "$out" | grep -v '^KNOWN' | tail -1 | cut -c1-200)"
  if [ $rc -ne 0 ]; then echo "$out" | grep -v '^KNOWN' | cut -c1-500; fi
done
