"""For every known-finding entry replay its example under each claimed property and report which
properties it reproduces under (used by hand to maintain the `property` lists)."""
import sys, json, os
sys.path.insert(0, '/verif')
from dst import props, checks
kfs = checks.load_kf()
for k in kfs:
    path = os.path.join('/verif', k['example_replay'])
    if not os.path.exists(path):
        print(k['id'], 'NO REPLAY'); continue
    row = []
    for p in props.ALL_PROPS:
        try:
            res = checks.replay_file(path, as_prop=p)
        except Exception as e:
            row.append('%s:ERR(%s)' % (p, type(e).__name__)); continue
        if res['reproduced']:
            row.append('%s:%s' % (p, res['violation']['clause']))
    print(k['id'], k['status'], 'listed', k['property'], '->', row)
