import sys, json, yaml
d=json.load(open(sys.argv[1]))
print(d['property'], d['clause'], d['violation'], d.get('fresh_interpreter_reproduced'))
c=d['case']
df=c['definition']
for t in df['tasks'].values(): t.pop('input', None)
print(yaml.safe_dump(df, sort_keys=False))
for k in c:
    if k.startswith('ops'):
        if isinstance(c[k], list):
            print(k)
            for o in c[k]: print('  ', json.dumps(o))
        else: print(k, c[k])
print(c.get('world_opts'), c['ast'].get('inputs'))
