import sys, json, yaml
d=json.load(open(sys.argv[1]))
print(d['property'], d['clause'], d['violation'], d.get('fresh_interpreter_reproduced'))
c=d['case']
df=c['definition']
for t in df['tasks'].values(): t.pop('input', None)
print(yaml.safe_dump(df, sort_keys=False))
def show(name, ops):
    print(name)
    for o in ops: print('  ', json.dumps(o))
for k in c:
    if k.startswith('ops') and isinstance(c[k], list): show(k, c[k])
    elif k.startswith('ops'): print(k, c[k])
    if k == 'runs':
        for i, ops in enumerate(c[k]): show('run %d' % i, ops)
print(c.get('world_opts'), c['ast'].get('inputs'))
