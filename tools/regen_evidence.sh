#!/bin/sh
# Run every registered quick command against /repo (as the harness will) and validate the evidence it writes.
cd "$(dirname "$0")/.."
/venv/bin/python - <<'PY'
import json, subprocess, jsonschema, sys
m = json.load(open('MANIFEST.json'))
jsonschema.validate(m, json.load(open('/root/.vp/MANIFEST.schema.json')))
es = json.load(open('/root/.vp/EVIDENCE.schema.json'))
bad = 0
for c in m['checks']:
    r = subprocess.run(c['quick_cmd'], shell=True, capture_output=True, text=True)
    lines = [l for l in r.stdout.splitlines() if not l.startswith('KNOWN-FINDING')]
    ev = json.load(open(c['evidence_file']))
    try:
        jsonschema.validate(ev, es); ok = 'evidence ok'
    except Exception as e:
        ok = 'EVIDENCE INVALID: %s' % str(e)[:100]; bad += 1
    if r.returncode != 0: bad += 1
    print(c['property_id'], 'rc=%d' % r.returncode, ok, (lines[-1] if lines else '')[:120], flush=True)
sys.exit(1 if bad else 0)
PY
