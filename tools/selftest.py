"""Self-tests of the harness itself (not of a property):
 1. the harness's own evaluator of the generator mini-language agrees with the real YAQL and Jinja
    evaluators on every condition/value node of a sample of generated definitions, in every
    rendered reference form;
 2. one seed is one execution: the same seed run twice in this process yields the same op list,
    the same final persisted form and the same outcome.
usage: selftest.py [n_seeds]   (exit 0 = ok, 1 = mismatch)"""
import sys
sys.path.insert(0, "/verif")
from orquesta.expressions import base as expr_base   # noqa: E402
from dst import lang, driver, props                   # noqa: E402
from dst.kernel import Keyed, canon, derive_seed       # noqa: E402


def nodes(prog):
    for name, t in prog["tasks"].items():
        for tr in t.get("next") or []:
            if tr.get("when") is not None:
                yield ("cond", tr["when"])
            for _, v in tr.get("publish") or []:
                if v[0] != "lit":
                    yield ("value", v)
        if t.get("retry") and t["retry"].get("when") is not None:
            yield ("cond", t["retry"]["when"])
        for v in (t.get("input") or {}).values():
            if v[0] not in ("lit", "item", "item_key"):
                yield ("value", v)


def main():
    n = int(sys.argv[1]) if len(sys.argv) > 1 else 150
    bad = 0
    checked = 0
    P = props.get("C01")
    for i in range(n):
        seed = derive_seed(99, "selftest", i)
        prog = driver.make_program(Keyed(seed), P.profile(seed, "quick"))
        init = dict((k, v) for k, v in prog.get("vars") or [] if not lang._is_node(v))
        init.update(dict((k, v) for k, v in prog.get("input") or []))
        for status in ("succeeded", "failed"):
            for result in ("r:x#1.1", {"k": "r:x#1.1", "f": "B", "n": 2}, ["a", "b"]):
                data = dict(init)
                data["__current_task"] = {"id": "x", "route": 0, "result": result}
                data["__state"] = {"tasks": {"x__r0": 0}, "sequence": [{"id": "x", "route": 0, "status": status}], "routes": [[]]}
                for kind, node in nodes(prog):
                    for lng in ("yaql", "jinja"):
                        for form in range(4):
                            src = lang.wrap(lang.cond_src(node, lng, form) if kind == "cond" else lang.value_src(node, lng, form), lng)
                            try:
                                mine = lang.eval_cond(node, status, result, init) if kind == "cond" else lang.eval_value(node, result, init)
                                mine_err = False
                            except lang.EvalFault:
                                mine_err = True
                            try:
                                real = expr_base.evaluate(src, data)
                                real_err = False
                            except Exception:  # noqa
                                real_err = True
                            checked += 1
                            if mine_err != real_err or (not mine_err and canon(mine) != canon(real)):
                                bad += 1
                                if bad < 10:
                                    print("MISMATCH", src, "status", status, "result", result, "mine",
                                          "ERR" if mine_err else mine, "real", "ERR" if real_err else real)
    print("evaluator cross-check: %d comparisons, %d mismatches" % (checked, bad))
    diverged = 0
    for i in range(min(n, 60)):
        seed = derive_seed(99, "twice", i)
        for prop in ("C02", "C15"):
            Pp = props.get(prop)
            a = driver.run_seed(seed, Pp.profile(seed, "quick"))
            b = driver.run_seed(seed, Pp.profile(seed, "quick"))
            if canon(a["ops"]) != canon(b["ops"]) or a["outcome"] != b["outcome"] or \
                    canon(a["world"].snap) != canon(b["world"].snap):
                diverged += 1
                print("DIVERGED seed", seed, prop)
    print("same seed twice: %d divergences" % diverged)
    return 1 if (bad or diverged) else 0


sys.exit(main())
