"""Sensitivity self-test: plant one bug at a time in a scratch worktree of /repo (never in /repo),
run the quick tier of the property it should break against that tree, record whether it is caught.
usage: planted.py <scratch-worktree> [name...]"""
import subprocess, sys, os, json
WT = sys.argv[1]
only = set(sys.argv[2:])
P = [
 ("C01-staged-not-removed", "orquesta/conducting.py", 'if event.status and staged_task and "items" not in staged_task:\n            self.workflow_state.remove_staged_task(task_id, route)', 'if event.status and staged_task and "items" not in staged_task and event.status != "running":\n            self.workflow_state.remove_staged_task(task_id, route)', ["C01"]),
 ("C01-status-changed-guard-dropped", "orquesta/conducting.py", "if new_task_status in statuses.COMPLETED_STATUSES and new_task_status != old_task_status:", "if new_task_status in statuses.COMPLETED_STATUSES:", ["C01", "C18", "C04"]),
 ("C02-table-cell-flipped", "orquesta/machines.py", "events.TASK_SUCCEEDED_WORKFLOW_ACTIVE_PAUSED: statuses.PAUSING,\n        events.TASK_SUCCEEDED_WORKFLOW_ACTIVE_CANCELED: statuses.CANCELING,\n        events.TASK_SUCCEEDED_WORKFLOW_DORMANT_INCOMPLETE: statuses.RUNNING,", "events.TASK_SUCCEEDED_WORKFLOW_ACTIVE_PAUSED: statuses.PAUSED,\n        events.TASK_SUCCEEDED_WORKFLOW_ACTIVE_CANCELED: statuses.CANCELING,\n        events.TASK_SUCCEEDED_WORKFLOW_DORMANT_INCOMPLETE: statuses.RUNNING,", ["C02"]),
 ("C03-completed-staged-counts", "orquesta/conducting.py", 'return [x for x in self.staged if x["ready"] and not x.get("completed", False)]', 'return [x for x in self.staged if x["ready"]]', ["C03"]),
 ("C04-next-tasks-ignores-status", "orquesta/conducting.py", "if self.get_workflow_status() not in statuses.RUNNING_STATUSES and not remediation_tasks:", "if self.get_workflow_status() in [statuses.PAUSED, statuses.PAUSING, statuses.CANCELED, statuses.CANCELING, statuses.SUCCEEDED] and not remediation_tasks:", ["C04"]),
 ("C05-reruns-not-persisted", "orquesta/conducting.py", '        if self.reruns:\n            data["reruns"] = json_util.deepcopy(self.reruns)\n', '', ["C05"]),
 ("C05-staged-items-shared", "orquesta/conducting.py", '"staged": json_util.deepcopy(self.staged),\n            "status": self.status,', '"staged": [dict(x) for x in self.staged],\n            "status": self.status,', ["C05", "C19"]),
 ("C06-merge-reversed", "orquesta/conducting.py", "for ctx_idx in ctx_idxs:\n            ctx_entry", "for ctx_idx in ([ctx_idxs[0]] + list(reversed(ctx_idxs[1:])) if ctx_idxs else []):\n            ctx_entry", ["C06"]),
 ("C07-count-transitions", "orquesta/conducting.py", "inbound_evaluation = {i: None for i in list(set(t[0] for t in inbound_transitions))}", "inbound_evaluation = {(t[0], t[2]): None for t in inbound_transitions}", ["C07"]),
 ("C07-skip-unreachable", "orquesta/machines.py", "            unreachable_barriers = workflow_state.get_unreachable_barriers()\n\n            # If there are unreachable barrier tasks, then change workflow status to failed", "            unreachable_barriers = []\n\n            # If there are unreachable barrier tasks, then change workflow status to failed", ["C07"]),
 ("C08-remediation-depends-on-active", "orquesta/machines.py", "if tk_ex_event.status in statuses.ABENDED_STATUSES and (has_next_tasks or has_barrier_next):", "if tk_ex_event.status in statuses.ABENDED_STATUSES and (has_next_tasks or has_barrier_next) and not has_active_tasks:", ["C08", "C02"]),
 ("C09-pausing-row-ignores-failure", "orquesta/machines.py", "        events.TASK_FAILED_WORKFLOW_ACTIVE: statuses.FAILED,\n        events.TASK_FAILED_WORKFLOW_DORMANT: statuses.FAILED,\n        events.TASK_REMEDIATED_WORKFLOW_ACTIVE_INCOMPLETE: statuses.PAUSING,", "        events.TASK_FAILED_WORKFLOW_ACTIVE: statuses.PAUSING,\n        events.TASK_FAILED_WORKFLOW_DORMANT: statuses.PAUSED,\n        events.TASK_REMEDIATED_WORKFLOW_ACTIVE_INCOMPLETE: statuses.PAUSING,", ["C09", "C02"]),
 ("C09-next-tasks-serves-pausing", "orquesta/statuses.py", "RUNNING_STATUSES = [REQUESTED, SCHEDULED, DELAYED, RUNNING, RESUMING, RETRYING]", "RUNNING_STATUSES = [REQUESTED, SCHEDULED, DELAYED, RUNNING, RESUMING, RETRYING, PAUSING]", ["C09", "C12"]),
 ("C10-canceling-ends-succeeded", "orquesta/machines.py", "        events.TASK_SUCCEEDED_WORKFLOW_DORMANT_COMPLETED: statuses.CANCELED,\n        events.TASK_SUCCEEDED_WORKFLOW_DORMANT_PAUSED: statuses.CANCELED,", "        events.TASK_SUCCEEDED_WORKFLOW_DORMANT_COMPLETED: statuses.SUCCEEDED,\n        events.TASK_SUCCEEDED_WORKFLOW_DORMANT_PAUSED: statuses.CANCELED,", ["C10"]),
 ("C11-narrow-except", "orquesta/conducting.py", "            except Exception as e:\n                fail_on_task_rendering = True", "            except (KeyError, TypeError) as e:\n                fail_on_task_rendering = True", ["C11"]),
 ("C11-publish-error-does-not-fail", "orquesta/conducting.py", "                    if errors:\n                        self.log_errors(errors, task_id, route, task_transition_id)\n                        self.request_workflow_status(statuses.FAILED)\n                        continue", "                    if errors:\n                        self.log_errors(errors, task_id, route, task_transition_id)\n                        continue", ["C11"]),
 ("C12-window-ignores-active", "orquesta/conducting.py", 'availability = task["concurrency"] - len(active_items)', 'availability = task["concurrency"]', ["C12"]),
 ("C12-complete-before-drain", "orquesta/machines.py", "        events.ACTION_FAILED_TASK_ACTIVE_ITEMS_INCOMPLETE", "        events.ACTION_FAILED_TASK_ACTIVE_ITEMS_INCOMPLETE", ["C12"]),
 ("C13-tally-off-by-one", "orquesta/conducting.py", "if retry_tally >= retry_count:", "if retry_tally > retry_count:", ["C13"]),
 ("C13-transitions-before-retry", "orquesta/conducting.py", "            if task_retry_required:\n                return self.update_task_state(task_id, route, events.TaskRetryEvent())", "            if task_retry_required and not self.graph.get_next_transitions(task_id):\n                return self.update_task_state(task_id, route, events.TaskRetryEvent())", ["C13"]),
 ("C17-items-reset-always", "orquesta/conducting.py", "if reset_items or item[\"status\"] in statuses.ABENDED_STATUSES:", "if True:", ["C17"]),
 ("C18-reuse-record-on-loop", "orquesta/conducting.py", "            and event.status in statuses.STARTING_STATUSES\n        ):\n            task_state_entry = self.add_task_state(", "            and event.status in statuses.STARTING_STATUSES\n            and not self.graph.in_cycle(task_id)\n        ):\n            task_state_entry = self.add_task_state(", ["C18", "C01"]),
 ("C19-unsorted-next-tasks", "orquesta/conducting.py", 'return sorted(next_tasks, key=lambda x: (x["id"], x["route"]))', 'return list({(t["id"], t["route"]): t for t in next_tasks}.values())[::-1]', ["C19", "C08"]),
 ("C19-items-reinitialised", "orquesta/conducting.py", 'if "items" not in staged_task or not staged_task["items"]:', 'if "items" not in staged_task or not any(i["status"] != statuses.UNSET for i in staged_task["items"]):', ["C19", "C12"]),
]
res = {}
for name, path, old, new, props in P:
    if only and name not in only: continue
    subprocess.run(["git", "-C", WT, "checkout", "-q", "--", "."], check=True)
    f = os.path.join(WT, path)
    s = open(f).read()
    if old not in s or old == new:
        print(name, "SKIP (pattern not found or no-op)"); continue
    open(f, "w").write(s.replace(old, new, 1))
    diff = subprocess.run(["git", "-C", WT, "diff"], capture_output=True, text=True).stdout
    os.makedirs("/verif/seeded/planted", exist_ok=True)
    open("/verif/seeded/planted/%s.diff" % name, "w").write(diff)
    row = {}
    for p in props:
        env = dict(os.environ, PYTHONPATH=WT, VERIF_SCRATCH="/tmp/mutout/planted-" + name)
        out = subprocess.run(["/verif/check", p], env=env, capture_output=True, text=True)
        lines = [l for l in out.stdout.splitlines() if "clause=" in l]
        row[p] = {"rc": out.returncode, "first": (lines[0].strip()[:160] if lines else "")}
        print(name, p, "rc=%d" % out.returncode, row[p]["first"], flush=True)
    res[name] = row
subprocess.run(["git", "-C", WT, "checkout", "-q", "--", "."], check=True)
json.dump(res, open("/tmp/mutout/planted-results.json", "w"), indent=1)
