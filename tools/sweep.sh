#!/bin/sh
# usage: sweep.sh "seeds" "props" [tier]   -- run checks over several base seeds, print only alarms
cd "$(dirname "$0")/.."
TIER=${3:-quick}
for s in $1; do for p in $2; do
  out=$(VERIF_SEED=$s timeout 2400 ./check $p --tier $TIER 2>&1); rc=$?
  echo "seed=$s $p rc=$rc $(echo "$out" | grep -v '^KNOWN' | tail -1 | cut -c1-160)"
  if [ $rc -ne 0 ]; then echo "$out" | grep -v '^KNOWN' | cut -c1-400; fi
done; done
