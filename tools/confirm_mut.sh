#!/bin/sh
# usage: confirm_mut.sh <id> <scratch-worktree>: re-verify an agent-produced change (demo fails with it, passes without; tests pass with it)
ID=$1; WT=$2; D=/tmp/mut/out/$ID
git -C $WT checkout -q -- .
PYTHONPATH=$WT /venv/bin/python $D/demo.py >/dev/null 2>&1; echo "$ID demo without patch rc=$?"
git -C $WT apply $D/patch.diff || exit 2
PYTHONPATH=$WT /venv/bin/python $D/demo.py >/dev/null 2>&1; echo "$ID demo with patch rc=$?"
(cd $WT && PYTHONPATH=$WT /venv/bin/python -m pytest -q -p no:cacheprovider orquesta/tests -W ignore 2>&1 | tail -1)
git -C $WT checkout -q -- .
