"""Evaluate the independently written breaking changes (sub-agent output in /tmp/mut/out) against the
registered quick checks, using a scratch worktree (never /repo), and store them under /verif/seeded/<id>/.
usage: seeded_eval.py <scratch-worktree> id:prop1,prop2 ..."""
import sys, os, json, subprocess, shutil
WT = sys.argv[1]
def sh(*a, **k): return subprocess.run(a, capture_output=True, text=True, **k)
for spec in sys.argv[2:]:
    mid, props = spec.split(':'); props = props.split(',')
    src = '/tmp/mut/out/' + mid
    dst = '/verif/seeded/' + mid
    os.makedirs(dst, exist_ok=True)
    for f in ('patch.diff', 'demo.py', 'notes.txt'):
        shutil.copy(os.path.join(src, f), os.path.join(dst, f))
    sh('git', '-C', WT, 'checkout', '-q', '--', '.')
    env = dict(os.environ, PYTHONPATH=WT)
    d0 = sh('/venv/bin/python', os.path.join(dst, 'demo.py'), env=env).returncode
    assert sh('git', '-C', WT, 'apply', os.path.join(dst, 'patch.diff')).returncode == 0, mid
    d1 = sh('/venv/bin/python', os.path.join(dst, 'demo.py'), env=env).returncode
    t = sh('/venv/bin/python', '-m', 'pytest', '-q', '-p', 'no:cacheprovider', 'orquesta/tests', '-W', 'ignore', cwd=WT, env=env).stdout.strip().splitlines()[-1]
    res = {}
    for p in props:
        e = dict(env, VERIF_SCRATCH='/tmp/mutout/' + mid)
        out = sh('/verif/check', p, env=e)
        lines = [l.strip() for l in out.stdout.splitlines() if 'clause=' in l]
        res[p] = {'exit': out.returncode, 'first_violation': lines[0][:300] if lines else None}
        print(mid, p, out.returncode, (lines[0][:150] if lines else ''), flush=True)
    sh('git', '-C', WT, 'checkout', '-q', '--', '.')
    meta = {'id': mid, 'breaks_property': (json.load(open('/tmp/mut/r3map.json')).get(mid) if mid.startswith(('R3-','R4-','R5-','R6-','R7-','R8-')) else (mid[3:6] if mid.startswith('R2-') else mid[:3])), 'source': 'independent sub-agent given only the property text and a scratch worktree',
            'needs_to_manifest': open(os.path.join(dst, 'notes.txt')).read().strip(),
            'confirmed': {'demo_exit_without_patch': d0, 'demo_exit_with_patch': d1, 'test_suite_with_patch': t},
            'checks_run': 'quick tier of %s against a scratch worktree with the patch applied (PYTHONPATH override), VERIF_SEED default' % ', '.join(props),
            'results': res, 'caught_by': [p for p in props if res[p]['exit'] == 1]}
    json.dump(meta, open(os.path.join(dst, 'meta.json'), 'w'), indent=1)
