#!/bin/sh
# run the thorough tier of every registered check with a shorter budget: thorough_short.sh <seed> <budget_s>
cd "$(dirname "$0")/.."
S=${1:-20260925}; B=${2:-240}
for p in C03 C02 C10 C11 C05 C15 C12 C04 C09 C06 C07 C13 C18 C19 C01 C17 C08; do
  out=$(VERIF_SEED=$S timeout 2400 ./check $p --tier thorough --budget $B 2>&1); rc=$?
  echo "thorough seed=$S $p rc=$rc $(echo "$out" | grep -v '^KNOWN' | tail -1 | cut -c1-200)"
  if [ $rc -ne 0 ]; then echo "$out" | grep -v '^KNOWN' | cut -c1-500; fi
done
