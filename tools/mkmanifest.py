import json, sys
sys.path.insert(0, '/verif')
from dst import props
LEVEL_TEXT = {
 'C01': "Seeded deterministic simulation of the provider around the real conductor; every offer is matched against a credit ledger derived from the generator AST with an independent evaluator; multiset equality demanded in succeeded runs. Exploration: sampled definitions x outcome tables x completion orders x poll/restart/duplicate faults.",
 'C02': "Status truthfulness clauses evaluated after every handler of every simulated run against harness-side ground truth (in-flight set, ledger facts), with pause/resume/cancel/inadmissible requests injected at seeded handler gaps, actions that are canceled or paused on their own, fail before they ran, or ask for input, and start paths through requested/scheduled/delayed.",
 'C03': "Resting-status clause evaluated at every quiescent point (nothing in flight, fresh get_next_tasks() empty) of every simulated run incl. rerun; also when only paused/pending actions remain; stuck states are reported with the op list that reaches them. Fault mix incl. cancel while pausing, requests in the retry window, action-level cancel/pause.",
 'C04': "Runs are driven to a terminal status with actions in flight; the suffix injects late completions, duplicates, polls, restarts and every status request; every rejected request in every state is compared byte-wise on the persisted form, and a forbidden request that is neither rejected nor effective is a violation.",
 'C05': "Twin execution: a live conductor and one that passes through deserialize(serialize()) at seeded points receive identical calls; results, exceptions and full persisted forms compared after every call; fix-point of the round trip checked; serialising must not change what the live conductor reports.",
 'C06': "Every offered context, rendered action input and the rendered output is compared with a causal write/ancestry model computed independently from the AST; order-decided (racing) variables are excluded exactly as the statement allows.",
 'C07': "Barrier ledger per (join, route): a join offer must be backed by the required number of distinct arrived inbound tasks, once per satisfaction; unreachable joins must fail the workflow with a naming error entry, neither succeed nor rest in running/resuming (also with pauses between arrivals).",
 'C08': "One scenario (definition + per-task outcome table) is conducted under K seeded completion orders; terminal status, executed multiset, published values and non-racing outputs are compared across the K terminal states.",
 'C09': "Twin runs: P with a pause inserted at a seeded handler gap and resumed at rest, U replaying the same completion order of the same action identities without the two requests; outcomes compared; offer/paused clauses checked during P.",
 'C10': "Cancel injected at seeded handler gaps from running/pausing/paused/resuming with in-flight actions reporting any outcome; no-offer, canceling/canceled, never-succeeded, not-failed-by-cancel and output clauses.",
 'C11': "Fault injection at the expression-evaluation seam: (a) an expression of the definition replaced by one that fails on the delivered data, (b) expr_base.evaluate wrapped to raise the evaluator's exception at the k-th evaluation; containment, recording, failing, no-offer clauses.",
 'C12': "Per task-execution item ledger (offered / in flight / done) checked at every offer and item completion under reordered item reports, polls, pause/cancel, restarts; concurrency literals and expressions incl. values <= 0; items still owed at quiescence are a violation.",
 'C13': "Per-visit attempt ledger: bound, condition (harness evaluator), delay, no-transition-on-retry (no context delta, nothing staged, workflow not failed), last attempt decides.",
 'C15': "Every conductor API call of every simulated run on inspection-accepted generated definitions runs under an exception monitor and a per-call alarm; only the documented rejections may leave a call. The completeness-of-inspection half is input generation: it is only sampled by an admission step (one injected definition fault of the five enumerated classes per sampled definition; inspection must report it) and is claimed at that strength.",
 'C17': "Runs are driven to failed/succeeded by each cause, then rerun requests (default, explicit, reset_items, inadmissible) are issued; offers after the request are matched against rerun entitlements; a twin whose re-executed actions succeed the first time gives the expected final status/output.",
 'C18': "Consecutive persisted states are diffed after every API call: sequence/contexts/routes are prefixes; started records keep id/route/ctxs.in/prev; decided records keep status/next/ctxs.out.",
 'C19': "Each seed is executed in fresh interpreters under different PYTHONHASHSEED values; digest chains over graph, inspection, offers, persisted state, errors and output are compared; get_next_tasks() is called twice at every dispatch point and must be idempotent; 15% of the seeds compare the inspection report of a definition broken in 1-4 places (non-empty report, tied sort keys) across hash seeds.",
}
def main():
    m = json.load(open('/verif/MANIFEST.json'))
    checks = []
    for p in props.ALL_PROPS:
        try:
            P = props.get(p)
        except KeyError:
            continue
        checks.append({
            "property_id": p,
            "quick_cmd": "timeout 900 ./check %s --tier quick" % p,
            "thorough_cmd": "timeout 2400 ./check %s --tier thorough" % p,
            "evidence_file": "evidence/%s.json" % p,
            "replay_cmd_template": "./check %s --replay {path}" % p,
            "engine": "dst",
            "level_claimed": {"category": "exploration", "text": LEVEL_TEXT[p], "design_ref": "DESIGN.md section 5 (%s)" % p},
            "level_note": "Assumes the provider contract of DESIGN.md 2.2 and the harness's own evaluator of the generator mini-language; sampled, not exhaustive; known open findings are listed in known_findings.json and printed as KNOWN-FINDING.",
            "technique": "deterministic simulation with fault injection (seeded schedule/fault search over a simulated provider, reference-model oracle, op-list replay)",
        })
    m["checks"] = checks
    m["engines"] = [{"name": "dst", "path": "dst/", "serves_properties": [c["property_id"] for c in checks],
                     "kind_free_text": "single-process deterministic simulator of the Orquesta provider (engine handlers, bus, runners, operator, crash/restart, evaluation-fault seam) around the real conductor, with a reference-model ledger"}]
    json.dump(m, open('/verif/MANIFEST.json', 'w'), indent=1)
    print(len(checks), 'checks')
main()
