import sys, collections, traceback, time
sys.path.insert(0, '/verif')
from dst import driver, gen, lang
from dst.kernel import canon
import yaml

def main():
    n = int(sys.argv[1]) if len(sys.argv) > 1 else 50
    base = int(sys.argv[2]) if len(sys.argv) > 2 else 0
    props = sys.argv[3].split(',') if len(sys.argv) > 3 else ['C01','C02','C03','C04','C06','C07','C12','C13','C15','C18','C19']
    profile = {'enabled': props, 'faults': {'poll_skip': 0.1, 'poll_twice': 0.1}, 'world': {'poll_idem': False}}
    cnt = collections.Counter()
    t0 = time.time()
    shown = 0
    for i in range(base, base + n):
        try:
            r = driver.run_seed(i, profile)
        except Exception as e:
            cnt['harness'] += 1
            print('SEED', i, 'HARNESS'); traceback.print_exc()
            continue
        cnt[r['outcome']] += 1
        w = r['world']
        if r['outcome'] != 'ok':
            e = r['error']
            key = (r['outcome'], getattr(e,'prop',None), getattr(e,'clause',None), getattr(e,'kf',None))
            cnt[key] += 1
            if shown < 8 and r['outcome'] in ('violation','generror','abort'):
                shown += 1
                print('SEED', i, r['outcome'], str(e)[:600])
                print('   status', w.status, 'ops', len(r['ops']), 'feat', sorted(r['prog']['_features']))
        else:
            cnt['final_' + str(w.status)] += 1
    dt = time.time() - t0
    print('%d runs in %.1fs (%.1f ms/run)' % (n, dt, dt / n * 1000))
    for k, v in sorted(cnt.items(), key=str): print(' ', k, v)
main()
