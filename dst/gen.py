"""Seeded generator of workflow definitions (as lang.py ASTs) behind feature gates.

The same AST feeds the renderer (-> Orquesta definition) and the reference model (ledger).
Shapes are built from blocks whose entry is always a fresh task, so that loops have a single
entry and a single back edge and joins sit exactly where several exits are linked to one entry.
"""
from collections import OrderedDict

from dst import lang

DEFAULT_GATES = dict(
    fork=True, multi_transition_fork=True, decision=True, join=True, join_partial=False, split=True,
    loop=True, join_in_loop=False, with_items=True, with_items_in_loop=False, with_items_join=True,
    retry=True, retry_expr=True, retry_cmd=True, retry_when_completed=False, delay=True, delay_expr=True,
    commands=True, cleanup_fail=True, remediate=True, publish=True, conflict_publish=True,
    republish=True, dict_republish=False, output=True, cond_ctx=True, inputs=True, late_var=False,
)


def make_config(rng, base=None, **over):
    """Swarm configuration: which gates are on for this run, sizes, knobs."""
    g = dict(DEFAULT_GATES)
    if base:
        g.update(base)
    # swarm: switch each optional gate off with some probability so runs are diverse
    for k in ("fork", "decision", "join", "split", "loop", "with_items", "retry", "delay", "commands",
              "cleanup_fail", "remediate", "publish", "conflict_publish", "republish", "cond_ctx",
              "multi_transition_fork", "retry_expr", "retry_cmd", "delay_expr", "with_items_join"):
        if g.get(k) and rng.random() < 0.25:
            g[k] = False
    g.update(over)
    cfg = {
        "gates": g,
        "size": rng.choice([2, 3, 4, 5, 6, 7, 8, 10, 12]),
        "nvars": rng.choice([1, 2, 2, 3, 4]),
        "knobs": {
            "lang": rng.choice(["yaql", "yaql", "jinja"]),
            "mix": rng.random() < 0.2,
            "ref_form": rng.randrange(12),
            "do_str": rng.random() < 0.3,
            "with_str": rng.random() < 0.3,
            "omit_continue": rng.random() < 0.5,
        },
    }
    return cfg


class Builder(object):
    def __init__(self, rng, cfg):
        self.r = rng
        self.cfg = cfg
        self.g = cfg["gates"]
        self.tasks = OrderedDict()
        self.n = 0
        self.budget = cfg["size"]
        self.vars = ["v%d" % i for i in range(cfg["nvars"])]
        self.extra_vars = []          # (name, initial json)
        self.counters = 0
        self.lists = 0

    # -- primitives -----------------------------------------------------------------------
    def new_task(self, prefix="t", in_loop=False):
        self.n += 1
        self.budget -= 1
        name = "%s%d" % (prefix, self.n)
        self.tasks[name] = {
            "action": "core.noop", "input": {}, "delay": None, "join": None, "with": None,
            "retry": None, "next": [], "shape": "token", "_in_loop": in_loop,
        }
        return name

    def main_when(self):
        x = self.r.random()
        if x < 0.45:
            return ["succeeded"]
        if x < 0.8:
            return None
        if x < 0.9:
            return ["completed"]
        return ["succeeded"]

    def slot(self, name, when="__main__"):
        """Append a fresh transition to `name`; return (name, index) to be linked later."""
        t = self.tasks[name]
        w = self.main_when() if when == "__main__" else when
        t["next"].append({"when": w, "publish": [], "do": []})
        return (name, len(t["next"]) - 1)

    def link(self, slots, entry):
        """Point every slot at `entry`; if several distinct tasks arrive, decide join/split."""
        srcs = sorted(set(s for s, _ in slots))
        for s, i in slots:
            do = self.tasks[s]["next"][i]["do"]
            if entry not in do:
                do.append(entry)
        if len(srcs) > 1:
            e = self.tasks[entry]
            k = len(srcs)
            opts = []
            if self.g["join"]:
                opts += ["all", "all", k if not e["_in_loop"] else "all"]
                if self.g["join_partial"] and k >= 2 and not e["_in_loop"]:
                    opts += [self.r.randrange(1, k)] * 3
            if self.g["split"] and not e["_in_loop"]:
                opts += [None]
            if not opts:
                opts = ["all"]
            e["join"] = self.r.choice(opts)

    # -- blocks: return (entry task, [exit slots]) -------------------------------------------
    def block(self, depth, in_loop=False):
        kinds = ["task", "task", "seq"]
        if depth < 3 and self.budget >= 3:
            if self.g["fork"]:
                kinds += ["fork", "fork"]
            if self.g["decision"]:
                kinds += ["decision"]
            if self.g["loop"] and not in_loop:
                kinds += ["loop"]
            if self.g["split"] and self.g["join"] and self.g["fork"] and not in_loop and self.budget >= 7:
                kinds += ["splitjoin"]
            if self.g["join"] and self.g["fork"] and not in_loop and self.budget >= 7:
                kinds += ["nestedjoin"]
        if self.budget <= 1:
            kinds = ["task"]
        kind = self.r.choice(kinds)
        return getattr(self, "b_" + kind)(depth, in_loop)

    def b_task(self, depth, in_loop):
        t = self.new_task(in_loop=in_loop)
        return t, [self.slot(t)]

    def b_seq(self, depth, in_loop):
        e1, x1 = self.block(depth + 1, in_loop)
        if self.budget <= 0:
            return e1, x1
        e2, x2 = self.block(depth + 1, in_loop)
        self.link(x1, e2)
        return e1, x2

    def b_fork(self, depth, in_loop):
        head = self.new_task(in_loop=in_loop)
        k = self.r.choice([2, 2, 3]) if self.budget >= 3 else 2
        entries, exits = [], []
        for _ in range(k):
            if self.budget <= 0 and entries:
                break
            e, x = self.block(depth + 1, in_loop)
            entries.append(e)
            exits.extend(x)
        w = self.main_when()
        if self.g["multi_transition_fork"] and self.r.random() < 0.4:
            for e in entries:
                self.tasks[head]["next"].append({"when": w, "publish": [], "do": [e]})
        else:
            self.tasks[head]["next"].append({"when": w, "publish": [], "do": list(entries)})
        # merge the branches again?
        if self.budget > 0 and self.r.random() < 0.7 and len(exits) > 1:
            if in_loop and not self.g["join_in_loop"]:
                return head, exits
            m = self.new_task(in_loop=in_loop)
            self.link(exits, m)
            if self.tasks[m]["join"] is None and in_loop:
                self.tasks[m]["join"] = "all"
            return head, [self.slot(m)]
        return head, exits

    def b_splitjoin(self, depth, in_loop):
        """fork -> multi-referenced task (no join: one execution per arriving branch, each on its
        own route) -> fork with branches of unequal depth -> join.  Every route has to satisfy the
        join on its own."""
        head = self.new_task()
        a, b = self.new_task(), self.new_task()
        self.tasks[head]["next"].append({"when": self.main_when(), "publish": [], "do": [a, b]})
        s_ = self.new_task()
        self.link([self.slot(a), self.slot(b)], s_)
        self.tasks[s_]["join"] = None
        x = self.new_task()
        ys = [self.new_task() for _ in range(self.r.choice([1, 2, 2]))]
        self.tasks[s_]["next"].append({"when": self.main_when(), "publish": [], "do": [x, ys[0]]})
        for i in range(1, len(ys)):
            self.link([self.slot(ys[i - 1])], ys[i])
        j = self.new_task()
        self.link([self.slot(x), self.slot(ys[-1])], j)
        self.tasks[j]["join"] = self.r.choice(["all", "all", 2])
        return head, [self.slot(j)]

    def b_nestedjoin(self, depth, in_loop):
        """fork -> (p, r); r -> q; q feeds two joins, j1 (with p) and j2 (with j1), without
        publishing: the same context arrives at j2 twice, once directly and once resolved against
        the other branch at j1.  The two branches publish the same variable independently."""
        head = self.new_task()
        p_, r_ = self.new_task(), self.new_task()
        self.tasks[head]["next"].append({"when": self.main_when(), "publish": [], "do": [p_, r_]})
        q = self.new_task()
        j1, j2 = self.new_task(), self.new_task()
        v = self.r.choice(self.vars) if self.g["publish"] and self.vars else None
        sp, sr = self.slot(p_, None), self.slot(r_, None)
        if v is not None:
            self.tasks[p_]["next"][sp[1]]["publish"].append([v, ["lit", "p:%s.nj" % p_]])
            self.tasks[r_]["next"][sr[1]]["publish"].append([v, ["lit", "p:%s.nj" % r_]])
        self.link([sp], j1)
        self.link([sr], q)
        if self.r.random() < 0.5:
            self.tasks[q]["next"].append({"when": None, "publish": [], "do": [j1, j2], "_plain": True})
        else:
            self.tasks[q]["next"].append({"when": None, "publish": [], "do": [j2], "_plain": True})
            self.tasks[q]["next"].append({"when": None, "publish": [], "do": [j1], "_plain": True})
        self.tasks[j1]["next"].append({"when": None, "publish": [], "do": [j2], "_plain": self.r.random() < 0.7})
        self.tasks[j1]["join"] = "all"
        self.tasks[j2]["join"] = "all"
        return head, [self.slot(j2)]

    def b_decision(self, depth, in_loop):
        head = self.new_task(in_loop=in_loop)
        self.tasks[head]["shape"] = "dict"
        k = 2 if self.budget < 3 else self.r.choice([2, 3])
        exits = []
        letters = ["A", "B", "C"]
        for i in range(k):
            if self.budget <= 0 and i > 0:
                break
            e, x = self.block(depth + 1, in_loop)
            cond = ["result_field_eq", "f", letters[i]]
            if self.r.random() < 0.7:
                cond = ["and", ["succeeded"], cond]
            self.tasks[head]["next"].append({"when": cond, "publish": [], "do": [e]})
            exits.extend(x)
        if in_loop and not self.g["join_in_loop"] and len(exits) > 1:
            # keep loop bodies free of merges: all branches end here; only first continues
            return head, exits[:1]
        return head, exits

    def b_loop(self, depth, in_loop):
        self.counters += 1
        c = "c%d" % self.counters
        self.extra_vars.append((c, 0))
        pre = self.new_task(in_loop=in_loop)
        bound = self.r.choice([1, 1, 2])
        body_n = 1 if self.budget < 2 else self.r.choice([1, 2, 2, 3])
        body = []
        first = None
        last_slots = None
        if self.g["join_in_loop"] and self.g["fork"] and self.budget >= 4 and self.r.random() < 0.6:
            first, last_slots = self.b_fork(depth + 1, True)
            if len(last_slots) > 1:
                m = self.new_task(in_loop=True)
                self.link(last_slots, m)
                if self.tasks[m]["join"] is None:
                    self.tasks[m]["join"] = "all"
                last_slots = [self.slot(m)]
            tail = self.new_task(in_loop=True)
            self.link(last_slots, tail)
            last = tail
        else:
            for i in range(body_n):
                t = self.new_task(in_loop=True)
                body.append(t)
                if i > 0:
                    s = self.slot(body[i - 1], when=self.r.choice([None, ["succeeded"]]))
                    self.link([s], t)
            first, last = body[0], body[-1]
        # optionally the loop also feeds a multi-referenced task outside the cycle (one execution
        # per arrival and per iteration, each under its own route)
        if self.g.get("loop_side_split", True) and self.g["split"] and body and self.budget >= 1 and self.r.random() < 0.35:
            sd = self.new_task("s")
            srcs = [body[0], body[-1]] if len(body) > 1 else [pre, body[0]]
            for src in srcs:
                self.tasks[src]["next"].append({"when": ["succeeded"], "publish": [], "do": [sd]})
            if self.budget >= 1 and self.r.random() < 0.5:
                sd2 = self.new_task("s")
                self.tasks[sd]["next"].append({"when": self.main_when(), "publish": [], "do": [sd2]})
        # entry into the loop resets the counter
        self.tasks[pre]["next"].append({"when": self.main_when(), "publish": [[c, ["lit", 0]]], "do": [first]})
        guard = ["ctx_lt", c, bound]
        ok = self.r.random() < 0.6
        back_when = ["and", ["succeeded"], guard] if ok else guard
        exit_when = ["and", ["succeeded"], ["not", guard]] if ok else ["not", guard]
        self.tasks[last]["next"].append({"when": back_when, "publish": [[c, ["ctx_plus1", c]]], "do": [first]})
        self.tasks[last]["next"].append({"when": exit_when, "publish": [], "do": []})
        return pre, [(last, len(self.tasks[last]["next"]) - 1)]

    # -- decoration ---------------------------------------------------------------------------
    def decorate(self):
        r, g = self.r, self.g
        names = list(self.tasks.keys())
        inc = None
        for name in names:
            t = self.tasks[name]
            in_loop = t["_in_loop"]
            # failure handling
            x = r.random()
            if g["remediate"] and x < 0.15 and self.budget > -4:
                h = self.new_task("h", in_loop=False) if not in_loop else None
                if h:
                    t["next"].append({"when": ["failed"], "publish": [], "do": [h]})
            elif g["commands"] and x < 0.25:
                t["next"].append({"when": ["failed"], "publish": [], "do": [r.choice(["noop", "fail", "noop"])]})
            elif g["commands"] and g["cleanup_fail"] and x < 0.32 and not in_loop and self.budget > -4:
                cu = self.new_task("k", in_loop=False)
                t["next"].append({"when": r.choice([["failed"], ["failed"], None]), "publish": [],
                                  "do": r.choice([[cu, "fail"], ["fail", cu]])})
            elif g["remediate"] and x < 0.40:
                # remediated straight into whatever the main transition leads to
                mains = [tr for tr in t["next"] if tr["do"] and tr["when"] == ["succeeded"]]
                if mains:
                    t["next"].append({"when": ["failed"], "publish": [], "do": list(mains[0]["do"])})
            elif g["publish"] and x < 0.45:
                t["next"].append({"when": ["failed"], "publish": [], "do": ["continue"]})
            elif g["commands"] and x < 0.5 and not t["next"]:
                t["next"].append({"when": ["succeeded"], "publish": [], "do": ["noop"]})
            # with-items
            if g["with_items"] and r.random() < 0.2 and t["shape"] == "token" and (not in_loop or g["with_items_in_loop"]) \
                    and (t["join"] is None or g["with_items_join"]):
                self.lists += 1
                xs = "xs%d" % self.lists
                n = r.choice([0, 1, 2, 3, 3, 4, 5, 6])
                key = r.choice([None, None, "x"])
                if key:
                    items = [("i%d_%d" % (self.lists, j)) for j in range(n)]
                else:
                    items = [("i%d_%d" % (self.lists, j)) for j in range(n)]
                self.extra_vars.append((xs, items))
                cc = r.choice([None, None, 1, 2, 3, n + 1, "expr", 0 if False else 1])
                if cc == "expr":
                    cname = "k%d" % self.lists
                    self.extra_vars.append((cname, r.choice([1, 2, 2, 3, 0, -1, -3])))
                    cc = ["ctx", cname]
                t["with"] = {"items": ["ctx", xs], "key": key, "concurrency": cc}
                t["shape"] = "list"
                t["input"]["it"] = ["item_key", "x"] if key else ["item"]
            # retry
            if g["retry"] and r.random() < 0.2 and not any("retry" in tr["do"] for tr in t["next"]):
                if g["retry_cmd"] and r.random() < 0.3 and not t["with"]:
                    w = ["failed"] if not g["retry_when_completed"] or r.random() < 0.5 else None
                    t["next"].insert(r.randrange(len(t["next"]) + 1), {"when": w, "publish": [], "do": ["retry"]})
                else:
                    cnt = r.choice([0, 1, 1, 2, 3])
                    if g["retry_expr"] and r.random() < 0.3:
                        rc = "rc%d" % self.n
                        self.n += 1
                        self.extra_vars.append((rc, cnt))
                        cnt = ["ctx", rc]
                    w = r.choice([None, None, ["failed"], ["result_eq", "again"] if t["shape"] == "token" else ["failed"]])
                    if g["retry_when_completed"] and r.random() < 0.3:
                        w = ["completed"]
                    d = r.choice([None, None, 1, 5])
                    if d is not None and g["retry_expr"] and r.random() < 0.3:
                        rd = "rd%d" % self.n
                        self.n += 1
                        self.extra_vars.append((rd, d))
                        d = ["ctx", rd]
                    t["retry"] = {"count": cnt, "when": w, "delay": d}
            # delay
            if g["delay"] and r.random() < 0.15:
                d = r.choice([1, 3, 30, 300])
                if g["delay_expr"] and r.random() < 0.3:
                    dn = "d%d" % self.n
                    self.n += 1
                    self.extra_vars.append((dn, d))
                    d = ["ctx", dn]
                t["delay"] = d
        # publishes
        if g["publish"]:
            for name in list(self.tasks.keys()):
                t = self.tasks[name]
                for ti, tr in enumerate(t["next"]):
                    if "retry" in tr["do"] or tr.get("_plain"):
                        continue
                    k = r.choice([0, 0, 1, 1, 2])
                    for pi in range(k):
                        if g["conflict_publish"]:
                            v = r.choice(self.vars)
                        else:
                            v = self.vars[(hash_name(name) + ti + pi) % len(self.vars)]
                        pv = self.pub_value(name, t, ti, pi)
                        if [v, pv] not in tr["publish"]:       # the schema wants unique entries
                            tr["publish"].append([v, pv])
            if g["dict_republish"]:
                for name in list(self.tasks.keys()):
                    t = self.tasks[name]
                    for ti, tr in enumerate(t["next"]):
                        if "retry" not in tr["do"] and r.random() < 0.5:
                            tr["publish"].append(["dv", ["lit", {"k_" + name: "p:%s.%d.d" % (name, ti)}]])
        if g["dict_republish"]:
            self.extra_vars.append(("dv", {"k_init": "i:dv"}))
        # the item list / concurrency of a with-items task may be (re)published on the way to it
        if g["publish"]:
            for name in list(self.tasks.keys()):
                t = self.tasks[name]
                w = t.get("with")
                if not w or r.random() < 0.5:
                    continue
                inbound = [(sn, tr) for sn, st in self.tasks.items() for tr in st["next"] if name in tr["do"]]
                if not inbound:
                    continue
                sn, tr = inbound[r.randrange(len(inbound))]
                cc = w.get("concurrency")
                if lang._is_node(cc) and cc[0] == "ctx" and r.random() < 0.7:
                    tr["publish"].append([cc[1], ["lit", r.choice([1, 2, 3, 4, 0, -2])]])
                if w["items"][0] == "ctx" and r.random() < 0.4:
                    n = r.choice([0, 1, 2, 3, 4])
                    tr["publish"].append([w["items"][1], ["lit", ["j%s_%d" % (name, j) for j in range(n)]]])
        # ... and so may the variables a retry count / delay expression reads
        if g["publish"]:
            for name in list(self.tasks.keys()):
                t = self.tasks[name]
                rt = t.get("retry")
                if not rt or r.random() < 0.4:
                    continue
                inbound = [(sn, tr) for sn, st in self.tasks.items() for tr in st["next"] if name in tr["do"]]
                if not inbound:
                    continue
                sn, tr = inbound[r.randrange(len(inbound))]
                for fld, vals in (("count", [0, 1, 2, 3]), ("delay", [0, 2, 7])):
                    node = rt.get(fld)
                    if lang._is_node(node) and node[0] == "ctx" and r.random() < 0.7:
                        tr["publish"].append([node[1], ["lit", r.choice(vals)]])
        # conditions reading the context
        if g["cond_ctx"]:
            for name in list(self.tasks.keys()):
                t = self.tasks[name]
                for tr in t["next"]:
                    if tr["when"] == ["succeeded"] and r.random() < 0.1:
                        v = r.choice(self.vars)
                        tr["when"] = ["and", ["succeeded"], ["not", ["ctx_eq", v, "never:%s" % name]]]
        # task inputs echo variables in scope
        for name, t in self.tasks.items():
            for v in self.vars:
                if r.random() < 0.7:
                    t["input"]["e_" + v] = ["ctx", v]
        # clean up empty transitions / unused slots
        for name, t in self.tasks.items():
            nxt = []
            for tr in t["next"]:
                if not tr["do"]:
                    if tr["publish"] or r.random() < 0.3:
                        tr["do"] = ["continue"] if (tr["publish"] or r.random() < 0.6) else ["noop"]
                        if tr["do"] == ["noop"] and not g["commands"]:
                            tr["do"] = ["continue"]
                        nxt.append(tr)
                else:
                    nxt.append(tr)
            t["next"] = nxt
            t.pop("_in_loop", None)

    def pub_value(self, name, t, ti, pi):
        r = self.r
        x = r.random()
        if x < 0.04:
            return ["lit", None]             # publishing null over a value must clear it downstream
        if x < 0.5:
            return ["lit", "p:%s.%d.%d" % (name, ti, pi)]
        if x < 0.7 and t["shape"] in ("token", "list") and not (t["shape"] == "list" and False):
            return ["result"]
        if x < 0.7 and t["shape"] == "dict":
            return ["result_field", "k"]
        if x < 0.9 and self.g["republish"]:
            return ["ctx", r.choice(self.vars)]
        return ["lit", "p:%s.%d.%d" % (name, ti, pi)]


def hash_name(s):
    return sum(ord(c) for c in s)


def generate(rng, cfg):
    b = Builder(rng, cfg)
    blocks = []
    # one or two root blocks (several start tasks)
    nroots = 2 if (cfg["size"] >= 5 and rng.random() < 0.2) else 1
    for _ in range(nroots):
        e, x = b.block(0)
        while b.budget > 0 and rng.random() < 0.7:
            e2, x2 = b.block(1)
            b.link(x, e2)
            x = x2
        blocks.append((e, x))
    b.decorate()
    g = cfg["gates"]
    prog = {
        "input": [], "vars": [], "tasks": b.tasks, "output": [], "knobs": dict(cfg["knobs"]),
    }
    inputs = {}
    vars_ = []
    for i, v in enumerate(b.vars):
        if g["inputs"] and i == 0 and rng.random() < 0.5:
            prog["input"].append([v, "in:%s" % v])
            if rng.random() < 0.5:
                inputs[v] = "rt:%s" % v
        else:
            vars_.append([v, "i:%s" % v])
    for n, val in b.extra_vars:
        vars_.append([n, val])
    prog["vars"] = vars_
    if g.get("late_var") and g["publish"]:
        # a variable that exists only once some task published it, and an output that reads it:
        # rendering the output fails until then (e.g. after a fail-fast failure elsewhere) and
        # succeeds after a late completion
        cands = [(n, tr) for n, t in b.tasks.items() for tr in t["next"] if "retry" not in tr["do"]]
        if cands:
            n, tr = cands[rng.randrange(len(cands))]
            tr["publish"].append(["lz", ["lit", "late:%s" % n]])
            prog["output"].append(["o_lz", ["ctx", "lz"]])
    if g["output"]:
        for v in b.vars:
            if rng.random() < 0.8:
                prog["output"].append(["o_" + v, ["ctx", v]])
        if len(b.vars) >= 2 and rng.random() < 0.25:
            # an output named like a context variable, read again by a later output
            a_, b_ = b.vars[0], b.vars[1]
            prog["output"].append([b_, ["ctx", a_]])
            prog["output"].append(["o_chain", ["ctx", b_]])
        if g["dict_republish"]:
            prog["output"].append(["o_dv", ["ctx", "dv"]])
        if rng.random() < 0.3:
            prog["output"].append(["o_lit", ["lit", "out:lit"]])
    if g.get("late_var") == "only":
        # nothing else to render: until `lz` exists the rendering yields no output at all
        prog["output"] = [o for o in prog["output"] if o[0] == "o_lz"]
    prog["inputs"] = inputs
    return prog


# --------------------------------------------------------------------------- feature tags

def features(prog):
    inc = lang.inbound(prog)
    f = set()
    cyc = {n: lang.in_cycle(prog, n) for n in prog["tasks"]}
    for n, t in prog["tasks"].items():
        srcs = set(s for s, _ in inc[n])
        if t.get("join") is not None:
            f.add("join")
            if t["join"] != "all" and int(t["join"]) < len(srcs):
                f.add("join_partial")
            if cyc[n]:
                f.add("join_in_loop")
            if t.get("with"):
                f.add("with_items_join")
        elif len(inc[n]) > 1 and not cyc[n]:
            f.add("split")
        if cyc[n]:
            f.add("loop")
            if t.get("with"):
                f.add("with_items_in_loop")
        if t.get("with"):
            f.add("with_items")
        if t.get("retry"):
            f.add("retry")
            rt = t["retry"]
            if any(lang._is_node(rt.get(k)) for k in ("count", "delay")):
                f.add("retry_expr_field")
            if rt.get("when") == ["completed"]:
                f.add("retry_when_completed")
        if t.get("delay") is not None:
            f.add("delay")
        for tr in t.get("next") or []:
            do = tr.get("do") or []
            if "retry" in do:
                f.add("retry")
                f.add("retry_cmd")
                if tr.get("when") is None or tr.get("when") == ["completed"]:
                    f.add("retry_when_completed")
            if "fail" in do:
                f.add("fail_cmd")
                if len(do) > 1:
                    f.add("fail_with_cleanup")
            if "noop" in do:
                f.add("noop_cmd")
            if len([d for d in do if d in prog["tasks"]]) > 1:
                f.add("fork")
            if tr.get("publish"):
                f.add("publish")
        tg = [d for tr in (t.get("next") or []) for d in tr.get("do") or [] if d in prog["tasks"]]
        if len(set(tg)) > 1:
            f.add("fork_or_decision")
    if any(v == "dv" for v, _ in prog.get("vars", [])):
        f.add("dict_republish")
    return f
