"""Seeded scheduler: turns one seed into a definition, an outcome table, latencies, operator
requests, crashes and evaluation faults, and drives the World through them on a virtual clock.
Also: replay of a recorded op list, and delta-debugging minimisation of op lists.
"""
import copy
import traceback

from dst import gen
from dst import lang
from dst.kernel import Keyed, Heap, digest, canon, derive_seed
from dst.world import (World, Violation, KnownFindingStop, Abort, GeneratorError, TERMINAL_WF, ACTION_TERMINAL)

MAX_CALLS = 600
MAX_OPS = 400

ALL_STATUS_REQUESTS = ["requested", "scheduled", "delayed", "running", "pausing", "paused", "resuming",
                       "succeeded", "failed", "canceling", "canceled", "pending", "retrying", "timeout", "abandoned"]

DEFAULT_FAULTS = dict(
    p_fail=None,            # None: drawn per run
    pause=0.0, resume_early=0.0, cancel=0.0, bad_request=0.0, restart=0.0, dup=0.0, poll_skip=0.0,
    poll_twice=0.0, rerun=0.0, eval_fault=0.0, act_canceled=0.5, act_canceling=0.4, act_timeout=0.2, act_abandoned=0.1,
    slow_branch=0.3, suffix_requests=0.0, pending=0.0, mark_running=0.3, act_cancel_solo=0.0, early_pause=0.0,
    early_cancel=0.0, cancel_while_pausing=0.0, cancel_at_retry=0.0, pause_at_retry=0.0, act_paused=0.0, item_first_event=0.0,
)


def make_program(K, profile):
    """Generate a definition for this seed; resample (bounded) while inspection rejects it."""
    tries = 0
    while True:
        rng = K.rng("prog", tries)
        cfg = gen.make_config(rng, base=profile.get("gates"), **(profile.get("force_gates") or {}))
        if profile.get("size"):
            cfg["size"] = rng.choice(profile["size"])
        prog = gen.generate(rng, cfg)
        prog["_cfg"] = cfg
        feats = gen.features(prog)
        ok = True
        need = profile.get("require_features")
        if need and not (set(need) <= feats):
            ok = False
        forbid = profile.get("forbid_features")
        if forbid and (set(forbid) & feats):
            ok = False
        if profile.get("acyclic") and lang.has_cycle(prog):
            ok = False
        if ok and not inspection_clean(prog):
            ok = False
        if ok and profile.get("data_fault"):
            ok = inject_data_fault(prog, K.rng("datafault", tries))
        if ok and profile.get("output_all_fail"):
            # every output expression fails on the data: the first rendering yields nothing, so the
            # engine renders again whenever it is asked to
            prog["output"] = [["o_fault", ["faulty", K.choice(lang.FAULT_KINDS, "oaf")]]]
            prog["fault_info"] = {"pos": "output", "task": None, "tr": None, "kind": "output_all"}
        tries += 1
        if not ok and tries > 40 and need:
            # the requested shape is too rare for this configuration: fall back to any clean one
            # (what a profile forbids stays forbidden: soundness of twin comparisons rests on it)
            profile = dict(profile, require_features=None)
        if ok or tries > 120:
            prog["_features"] = feats
            prog["_tries"] = tries
            prog["_ok"] = ok
            return prog


def inject_data_fault(prog, rng):
    """Replace one expression of the definition, at a seeded position, by one that fails on the
    data delivered (C11 a).  Records the position in prog["fault_info"]."""
    kind = rng.choice(lang.FAULT_KINDS)
    node = ["faulty", kind]
    wrong_value = rng.random() < 0.15          # evaluates fine, but to a value of the wrong type
    pos = []
    names = list(prog["tasks"].keys())
    for n in names:
        t = prog["tasks"][n]
        pos.append(("input", n))
        pos.append(("action", n))
        pos.append(("delay", n))
        if t.get("with"):
            pos.append(("items", n))
            pos.append(("concurrency", n))
        if t.get("retry"):
            pos.append(("retry_when", n))
            pos.append(("retry_count", n))
            pos.append(("retry_delay", n))
        for i, tr in enumerate(t.get("next") or []):
            if "retry" in (tr.get("do") or []):
                continue
            pos.append(("when", n, i))
            pos.append(("publish", n, i))
    pos.append(("vars",))
    pos.append(("output",))
    pos.append(("wf_input",))
    # task-level positions dominate the list; give the workflow-level ones a fair share
    if rng.random() < 0.12:
        where = rng.choice([("vars",), ("output",), ("wf_input",)])
    else:
        where = rng.choice(pos)
    w = where[0]
    if wrong_value:
        cands = [q for q in pos if q[0] in ("concurrency", "delay", "retry_count", "retry_delay", "items")]
        if cands:
            where = rng.choice(cands)
            w = where[0]
            kind = "wrong_value"
            bad = rng.choice(["2", 1.5, [2], {"a": 1}]) if w != "items" else rng.choice(["abc", 7, {"a": 1}])
            prog["vars"].append(["bad_zz", bad])
            node = ["ctx", "bad_zz"]
    two = False
    if w == "when" and not wrong_value and rng.random() < 0.4:
        # the same failing condition on two transitions of one task: each must be named
        trs = [i for i, tr in enumerate(prog["tasks"][where[1]].get("next") or []) if "retry" not in (tr.get("do") or [])]
        if len(trs) >= 2:
            other = rng.choice([i for i in trs if i != where[2]])
            prog["tasks"][where[1]]["next"][other]["when"] = node
            two = other
    if w == "vars":
        prog["vars"].append(["fv_zz", node])
    elif w == "output":
        prog["output"].insert(rng.randrange(len(prog["output"]) + 1), ["o_fault", node])
    elif w == "wf_input":
        prog["input"].append(["in_fault", None])
        prog["inputs"]["in_fault"] = lang.wrap(lang._faulty_expr(kind, "yaql"), "yaql")
    else:
        t = prog["tasks"][where[1]]
        if w == "input":
            t["input"]["f_zz"] = node
        elif w == "action":
            t["action"] = node
        elif w == "delay":
            t["delay"] = node
        elif w == "items":
            t["with"]["items"] = node
        elif w == "concurrency":
            t["with"]["concurrency"] = node
        elif w == "retry_when":
            t["retry"]["when"] = node
        elif w == "retry_count":
            t["retry"]["count"] = node
        elif w == "retry_delay":
            t["retry"]["delay"] = node
        elif w == "when":
            t["next"][where[2]]["when"] = node
        elif w == "publish":
            t["next"][where[2]]["publish"].append(["v0", node])
    prog["fault_info"] = {"pos": w, "task": where[1] if len(where) > 1 else None,
                      "tr": where[2] if len(where) > 2 else None, "kind": kind, "tr2": two if two is not False else None}
    return True


_inspect_cache = {}


def inspection_clean(prog):
    from orquesta.specs import native as native_specs
    d = lang.render(prog)
    try:
        spec = native_specs.WorkflowSpec(copy.deepcopy(d))
        return spec.inspect() == {}
    except Exception:  # noqa
        return True     # let the run itself surface it (C15)


def route_identity(world, route):
    """A schedule-independent name for a route: the transitions that opened it (route *numbers*
    are handed out in completion order and differ between twins that share a scenario)."""
    try:
        det = world.snap["state"]["routes"][route]
    except Exception:  # noqa
        return None
    return canon(det) if det else None


class Scheduler(object):
    def __init__(self, seed, profile, sched_seed=None):
        self.seed = seed
        self.K = Keyed(seed)
        self.KS = Keyed(sched_seed if sched_seed is not None else seed)
        self.profile = profile
        self.f = dict(DEFAULT_FAULTS)
        self.f.update(profile.get("faults") or {})
        self.stats = {}
        self.ops = []
        self.heap = Heap()
        self.scheduled = set()
        self.pos = 0
        self.delivered = []          # terminal events delivered (for dup)
        self.did_rerun = 0
        self.resumes = 0
        self.pended = set()
        self.order_started = []
        self.order_done = []
        self.world = None
        self.prog = None

    # ------------------------------------------------------------------ environment (keyed)
    def p_fail(self):
        if self.f["p_fail"] is not None:
            return self.f["p_fail"]
        return self.K.choice([0.0, 0.0, 0.05, 0.15, 0.35], "pfail")

    def outcome(self, task, visit, attempt, item, shape, rk=None):
        K = self.K
        key = (task, visit, attempt, item) if not rk else (task, visit, attempt, item, "route", rk)
        pf = self.p_fail()
        if item is not None:
            pf = pf / 2.0
        # some tasks are failure-prone in this scenario, others never fail
        bias = K.u("outcome_bias", task)
        if bias < 0.5:
            pf = pf * 0.3
        elif bias > 0.85:
            pf = min(0.9, pf * 3)
        status = "succeeded"
        if K.u("outcome", *key) < pf:
            x = K.u("outcome_kind", *key)
            if x < self.f["act_abandoned"]:
                status = "abandoned"
            elif x < self.f["act_abandoned"] + self.f["act_timeout"]:
                status = "timeout"
            else:
                status = "failed"
        tok = "r:%s#%d.%d" % (task, visit, attempt) + ("" if item is None else ".%d" % item)
        if shape == "dict":
            result = {"k": tok, "f": K.choice(["A", "A", "B", "C"], "payload_f", *key), "n": K.below(5, "payload_n", *key)}
        elif shape == "token" or item is not None or shape == "list":
            result = tok
            if K.u("payload_again", *key) < 0.15:
                result = "again"
        else:
            result = tok
        return status, result

    def outcome_for(self, a):
        x = a["x"]
        shape = (self.prog["tasks"].get(a["task"]) or {}).get("shape", "token")
        return self.outcome(a["task"], x.visit, x.attempt, a["item"], shape, self.route_key(x))

    def route_key(self, x):
        """Outcomes differ between the routes of a split task (keyed by the order in which the
        routes of that task were first offered, which the schedule decides) -- except where the
        scenario must fix the outcome per task (C08)."""
        if self.profile.get("outcome_per_task"):
            return None
        return route_identity(self.world, x.route)

    def latency(self, task, visit, attempt, item):
        KS = self.KS
        x = KS.u("latency", task, visit, attempt, item)
        lat = 0.1 + 10.0 * x * x
        if KS.u("slow", task) < self.f["slow_branch"]:
            lat *= 20
        return lat

    # ------------------------------------------------------------------ op execution
    def do(self, op):
        self.ops.append(op)
        r = self.world.apply(op)
        self.schedule_new()
        return r

    def schedule_new(self):
        w = self.world
        for aid in sorted(w.inflight):
            if aid in self.scheduled:
                continue
            self.scheduled.add(aid)
            a = w.inflight[aid]
            x = a["x"]
            self.order_started.append(aid)
            delay = float(a.get("delay") or 0)
            lat = self.latency(a["task"], x.visit, x.attempt, a["item"])
            if a["state"] not in ("running",) and self.K.u("mark", aid) < self.f["mark_running"]:
                self.heap.push(self.heap.now + delay + 0.001, ("mark", aid))
            self.heap.push(self.heap.now + delay + lat, ("complete", aid))
            if delay:
                self.stats["fault_delay"] = self.stats.get("fault_delay", 0) + 1

    def coin(self, kind, *key):
        rate = self.f.get(kind) or 0.0
        return rate > 0 and self.K.u("fault", kind, self.pos, *key) < rate

    # ------------------------------------------------------------------ fault injection between handlers
    def inject(self):
        w = self.world
        if w.c is None:
            return
        if self.coin("restart"):
            self.do(["restart"])
        if self.coin("eval_fault") and not w.fault_fired and w.fault_in is None:
            self.do(["eval_fault", 1 + self.K.below(6, "fault", "evalk", self.pos)])
        if w.status in TERMINAL_WF:
            if self.coin("suffix_requests"):
                self.do(["request", self.K.choice(ALL_STATUS_REQUESTS, "fault", "sreq", self.pos)])
            return
        if not w.pause_req and not w.cancel_req and self.coin("pause", len(w.inflight) > 0):
            self.do(["request", self.K.choice(["pausing", "pausing", "paused"], "fault", "pkind", self.pos)])
        elif w.pause_req and self.coin("resume_early"):
            self.do(["request", self.K.choice(["resuming", "running"], "fault", "rkind", self.pos)])
        cwp = w.pause_req and not w.cancel_req and w.status == "pausing" and self.coin("cancel_while_pausing")
        if cwp:
            self.stats["fault_cancel_while_pausing"] = self.stats.get("fault_cancel_while_pausing", 0) + 1
        if not w.cancel_req and (cwp or self.coin("cancel")):
            self.do(["request", self.K.choice(["canceling", "canceling", "canceled"], "fault", "ckind", self.pos)])
            if w.cancel_req:
                for aid in sorted(w.inflight):
                    if self.K.u("fault", "ack_cancel", aid) < self.f.get("act_canceling", 0.4):
                        self.heap.push(self.heap.now + 0.01 * (1 + self.K.below(5, "fault", "ackd", aid)), ("mark", aid, "canceling"))
        if self.coin("bad_request"):
            # `succeeded` is the one status the table lets a caller force on a running workflow;
            # forcing it is not a pause/resume/cancel request and no property speaks about it
            req = self.K.choice(ALL_STATUS_REQUESTS, "fault", "breq", self.pos)
            if not (req == "succeeded" and w.status in ("running",)):
                self.do(["request", req])

    def after_handler(self):
        """Poll policy: the engine asks for next tasks after an event -- or skips / repeats it."""
        if self.coin("poll_skip"):
            self.stats["fault_poll_skip"] = self.stats.get("fault_poll_skip", 0) + 1
            return
        n = self.do(["dispatch"])
        if self.profile.get("dispatch_all"):
            # as StackStorm does: keep asking until nothing more is on offer
            g = 0
            while n and g < 20:
                g += 1
                n = self.do(["dispatch"])
        if self.coin("poll_twice"):
            self.stats["fault_poll_twice"] = self.stats.get("fault_poll_twice", 0) + 1
            self.do(["dispatch"])

    # ------------------------------------------------------------------ main loop
    def run(self):
        profile = self.profile
        self.prog = profile.get("prog") or make_program(self.K, profile)
        prog = self.prog
        opts = dict(profile.get("world") or {})
        if self.K.u("knob", "first_event") < 0.3:
            opts.setdefault("first_event", self.K.choice(["requested", "scheduled"], "knob", "fe"))
            if (self.f.get("item_first_event") or 0) > 0 and self.K.u("knob", "item_first_event") < self.f["item_first_event"]:
                opts.setdefault("item_first_event", True)
        if self.K.u("knob", "start_path") < 0.25:
            path = list(self.K.choice([["requested", "scheduled", "running"], ["requested", "running"], ["scheduled", "running"],
                                       ["delayed", "running"], ["requested", "delayed", "scheduled", "running"],
                                       ["requested", "scheduled", "running"]], "knob", "start_menu"))
            if ((self.f.get("early_pause") or 0) > 0 or (self.f.get("early_cancel") or 0) > 0) \
                    and self.K.u("knob", "start_partial") < 0.5:
                path = path[:-1]        # the operator acts before the workflow was set running
            opts.setdefault("start_path", path)
        if (self.f.get("act_cancel_solo") or 0) > 0:
            opts.setdefault("solo_cancel", True)
        if (self.f.get("act_paused") or 0) > 0:
            opts.setdefault("act_pause_seed", 1 + self.K.below(1000000, "knob", "aps_seed"))
        if self.K.u("knob", "abend_before_running") < 0.3:
            opts.setdefault("abend_before_running", 1 + self.K.below(1000000, "knob", "abr_seed"))
        self.opts = opts
        self.world = w = World(prog, set(profile.get("enabled") or ()), self.stats, opts)
        try:
            self._run()
        finally:
            w.remove_seam()
        return w

    def _run(self):
        w = self.world
        self.do(["start"])
        if w.status in ("requested", "scheduled", "delayed"):
            # the start path stopped short of running: a pause (and resume) or a cancel request
            # reaches a workflow that has not started anything yet
            if self.coin("early_pause"):
                self.stats["fault_early_pause"] = 1
                self.do(["request", self.K.choice(["pausing", "paused"], "fault", "epkind")])
                if self.coin("early_cancel"):
                    self.stats["fault_early_cancel"] = 1
                    self.do(["request", self.K.choice(["canceling", "canceled"], "fault", "eckind")])
                elif w.status == "paused":
                    self.do(["request", self.K.choice(["resuming", "running"], "fault", "erkind")])
            elif self.coin("early_cancel"):
                self.stats["fault_early_cancel"] = 1
                self.do(["request", self.K.choice(["canceling", "canceled"], "fault", "eckind")])
            if w.status in ("requested", "scheduled", "delayed"):
                self.do(["request", "running"])
        if w.status not in TERMINAL_WF:
            n = self.do(["dispatch"])
            g = 0
            while n and self.profile.get("dispatch_all") and g < 20:
                g += 1
                n = self.do(["dispatch"])
        guard = 0
        while True:
            guard += 1
            if w.calls > MAX_CALLS or len(self.ops) > MAX_OPS or guard > 2000:
                self.stats["capped"] = self.stats.get("capped", 0) + 1
                # generated definitions are bounded (<= 12 tasks, <= 3 loop iterations, <= 3 retries,
                # <= 6 items): a run that has not come to rest after this many handler steps is not
                # making progress towards a resting status
                w.report("C03", "bounded_progress", "no resting point after %d handler steps / %d API calls "
                         "(status %s, %d in flight)" % (len(self.ops), w.calls, w.status, len(w.inflight)))
                w.report("C13", "bounded", "run does not terminate within %d handler steps" % len(self.ops))
                return
            self.inject()
            if not len(self.heap):
                r = self.do(["idle"])
                if len(self.heap) or r:
                    # something was offered (an empty with-items task completes inside the
                    # dispatch and leaves nothing in flight): poll again
                    continue
                if self.settle():
                    continue
                break
            at, seq, ev = self.heap.pop()
            self.pos += 1
            if ev[0] == "mark":
                self.do(["mark", ev[1], ev[2] if len(ev) > 2 else "running"])
                continue
            if ev[0] == "dup":
                self.do(["dup", ev[1]])
                self.after_handler()
                continue
            aid = ev[1]
            a = w.inflight.get(aid) or w.pending.get(aid)
            if a is None:
                continue
            if ev[0] == "respond":
                # the inquiry is answered: StackStorm resumes the workflow, then the action completes
                if aid not in w.pending:
                    continue
                if w.status in ("paused", "pausing"):
                    if a["state"] == "paused" and not w.pause_req and self.K.u("ops", "child_alone", aid) < 0.35:
                        # only the child execution is resumed; its running report is what wakes
                        # the workflow (no resume request)
                        self.stats["fault_child_resumed_alone"] = self.stats.get("fault_child_resumed_alone", 0) + 1
                    else:
                        self.do(["request", self.K.choice(["resuming", "running"], "ops", "respond", aid)])
            elif a["item"] is None and aid not in self.pended and w.status in ("running", "resuming", "pausing") \
                    and not w.cancel_req and self.coin("pending", aid):
                # the action asks for input first (an inquiry): it reports pending and waits
                self.pended.add(aid)
                self.do(["deliver", aid, "pending", None])
                self.heap.push(self.heap.now + 1 + 20 * self.K.u("fault", "respond", aid), ("respond", aid))
                self.stats["fault_act_pending"] = self.stats.get("fault_act_pending", 0) + 1
                self.after_handler()
                continue
            if ev[0] != "respond" and a["item"] is None and aid not in self.pended and a["state"] == "running" \
                    and w.status in ("running", "resuming") and not w.cancel_req and not w.pause_req \
                    and self.coin("act_paused", aid):
                # the action itself is paused (an operator pauses a child execution); it is resumed
                # later, after the workflow was resumed if it had come to rest meanwhile
                self.pended.add(aid)
                self.do(["deliver", aid, "paused", None])
                self.heap.push(self.heap.now + 1 + 20 * self.K.u("fault", "respond", aid), ("respond", aid))
                self.after_handler()
                continue
            x = a["x"]
            status, result = self.outcome_for(a)
            if w.cancel_req and (a["state"] == "canceling" and status == "succeeded"
                                 or self.K.u("cancel_outcome", aid) < self.f["act_canceled"]):
                status = "canceled"    # keeps the payload shape of the task
                self.stats["fault_act_canceled"] = self.stats.get("fault_act_canceled", 0) + 1
            elif not w.cancel_req and w.status in ("running", "resuming", "pausing") and self.coin("act_cancel_solo", aid):
                # somebody cancels this one action execution; no cancel request reached the workflow
                status = "canceled"
                self.stats["fault_act_canceled_solo"] = self.stats.get("fault_act_canceled_solo", 0) + 1
            if status != "succeeded" and status != "canceled":
                self.stats["fault_act_" + status] = self.stats.get("fault_act_" + status, 0) + 1
            if self.order_started and aid != self.first_outstanding():
                self.stats["fault_reorder"] = self.stats.get("fault_reorder", 0) + 1
            self.order_done.append(aid)
            self.do(["deliver", aid, status, result])
            rec = w.record(a["task"], a["route"]) if w.c is not None and w.snap else None
            if rec is not None and rec.get("status") == "retrying" and not w.cancel_req and w.status not in TERMINAL_WF:
                # the window between the decision to retry and the start of the next attempt
                if self.coin("cancel_at_retry", aid):
                    self.stats["fault_cancel_at_retry"] = self.stats.get("fault_cancel_at_retry", 0) + 1
                    self.do(["request", self.K.choice(["canceling", "canceled"], "fault", "crkind", aid)])
                elif not w.pause_req and self.coin("pause_at_retry", aid):
                    self.stats["fault_pause_at_retry"] = self.stats.get("fault_pause_at_retry", 0) + 1
                    self.do(["request", self.K.choice(["pausing", "paused"], "fault", "prkind", aid)])
            if self.coin("dup", aid):
                self.heap.push(self.heap.now + self.K.u("fault", "dupdelay", aid) * 5, ("dup", aid))
            self.after_handler()
        self.do(["final"])

    def first_outstanding(self):
        done = set(self.order_done)
        for aid in self.order_started:
            if aid not in done:
                return aid
        return None

    def settle(self):
        """Nothing in flight, nothing on offer.  Decide whether the operator acts again."""
        w = self.world
        if w.c is None:
            return False
        if w.status == "paused" and self.profile.get("resume_at_rest", True) and self.resumes < 4:
            self.resumes += 1
            self.do(["request", self.K.choice(["resuming", "running"], "ops", "resume", self.pos)])
            if not w.cancel_req and (self.f.get("cancel") or 0) > 0 and self.K.u("fault", "cancel_after_resume", self.pos) < 0.15:
                # the operator changes their mind right after resuming, before anything was dispatched
                self.do(["request", self.K.choice(["canceling", "canceled"], "fault", "ckind2", self.pos)])
            n = self.do(["dispatch"])
            g = 0
            while n and self.profile.get("dispatch_all") and g < 20:
                g += 1
                n = self.do(["dispatch"])
            return True
        if w.status in TERMINAL_WF and self.did_rerun < self.f.get("max_reruns", 1) and self.f.get("rerun", 0) > 0 \
                and self.K.u("ops", "rerun", self.did_rerun) < self.f["rerun"]:
            self.did_rerun += 1
            reqs = None
            done = [x for x in w.ledger.execs if x.state == "done" and x.kind != "bogus"]
            if done and self.K.u("ops", "rerun_explicit", self.did_rerun) < 0.5:
                # explicit requests for up to three executed tasks (independent or not)
                n = 1 + self.K.below(3, "ops", "rerun_n", self.did_rerun)
                reqs, seen = [], set()
                for j in range(n):
                    x = done[self.K.below(len(done), "ops", "rerun_pick", self.did_rerun, j)]
                    if (x.task, x.route) not in seen:
                        seen.add((x.task, x.route))
                        reqs.append([x.task, x.route, False])
            self.do(["rerun", reqs])
            self.do(["dispatch"])
            return True
        return False


# --------------------------------------------------------------------------- idle / final ops on World

def _op_idle(self):
    """Engine idle poll: ask for next tasks; if nothing is on offer and nothing is in flight the
    run is quiescent and the resting-status clauses apply."""
    if self.c is None:
        return 0
    if self.status in TERMINAL_WF and self.terminal_seen is not None and not self.inflight:
        n = self.op_dispatch()
    else:
        n = self.op_dispatch()
    if n == 0 and not self.inflight:
        self.check_quiescent()
    return n


def _op_final(self):
    if self.c is None or self.inflight:
        return False
    self.check_final()
    return True


World.op_idle = _op_idle
World.op_final = _op_final


# --------------------------------------------------------------------------- running / replay

def classify(e):
    if isinstance(e, Violation):
        return "violation"
    if isinstance(e, KnownFindingStop):
        return "kf"
    if isinstance(e, Abort):
        return "abort"
    if isinstance(e, GeneratorError):
        return "generror"
    return "harness"


def run_seed(seed, profile, sched_seed=None):
    """One simulated run.  Returns a result dict (never raises for property outcomes)."""
    s = Scheduler(seed, profile, sched_seed)
    res = {"seed": seed, "outcome": "ok", "ops": s.ops, "stats": s.stats}
    w = None
    try:
        w = s.run()
    except (Violation, KnownFindingStop, Abort, GeneratorError) as e:
        res["outcome"] = classify(e)
        res["error"] = e
    w = s.world
    res["world"] = w
    res["prog"] = s.prog
    res["sched"] = s
    return res


def replay(prog, ops, profile, opts=None):
    """Execute a recorded op list against the current tree: a pure function of (file, code)."""
    stats = {}
    o = dict(profile.get("world") or {})
    o.update(opts or {})
    w = World(prog, set(profile.get("enabled") or ()), stats, o)
    res = {"outcome": "ok", "stats": stats, "world": w, "step": None}
    try:
        try:
            for i, op in enumerate(ops):
                res["step"] = i
                w.apply(copy.deepcopy(op))
        finally:
            w.remove_seam()
    except (Violation, KnownFindingStop, Abort, GeneratorError) as e:
        res["outcome"] = classify(e)
        res["error"] = e
    return res


def same_failure(res, prop, clause, kf=None):
    e = res.get("error")
    if res["outcome"] == "violation":
        return e.prop == prop and e.clause == clause and kf is None
    if res["outcome"] == "kf":
        return kf is not None and e.kf == kf
    return False


def shrink_ops(prog, ops, profile, prop, clause, kf=None, opts=None, budget=400):
    """ddmin over the op list while the same clause of the same property still fails."""
    ops = [copy.deepcopy(o) for o in ops]
    tests = [0]

    def fails(cand):
        tests[0] += 1
        if cand and cand[0][0] != "start":
            return False
        r = replay(prog, cand, profile, opts)
        return same_failure(r, prop, clause, kf)

    # cut the tail after the failing step
    r = replay(prog, ops, profile, opts)
    if not same_failure(r, prop, clause, kf):
        return ops, False
    if r["step"] is not None:
        ops = ops[: r["step"] + 1]
    n = 2
    while len(ops) >= 2 and tests[0] < budget:
        chunk = max(1, len(ops) // n)
        reduced = False
        i = 1
        while i < len(ops) and tests[0] < budget:
            cand = ops[:i] + ops[i + chunk:]
            if fails(cand):
                ops = cand
                n = max(n - 1, 2)
                reduced = True
            else:
                i += chunk
        if not reduced:
            if chunk == 1:
                break
            n = min(len(ops), n * 2)
    return ops, True
