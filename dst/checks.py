"""Per-property check driver: known-finding replay, seeded search sharded over worker processes,
minimisation, replay files, evidence.

Exit codes: 0 = property held on everything explored (KNOWN-FINDING lines allowed),
1 = VIOLATION (a line `VIOLATION property=<id> replay=<path>` is printed), 2 = harness error.
"""
import concurrent.futures
import copy
import faulthandler
import json
import multiprocessing
import os
import subprocess
import sys
import time
import traceback

from dst import driver
from dst import gen
from dst import lang
from dst import props
from dst.kernel import derive_seed, digest, canon
from dst.world import Violation, KnownFindingStop

ROOT = os.path.dirname(os.path.dirname(os.path.abspath(__file__)))
# VERIF_SCRATCH redirects what a run writes (used when trying the checks against a scratch copy of
# the repository, so that the committed evidence is only ever written by runs against /repo)
_OUT = os.environ.get("VERIF_SCRATCH") or ROOT
REPLAYS = os.path.join(_OUT, "replays")
FINDINGS = os.path.join(ROOT, "findings")
EVIDENCE = os.path.join(_OUT, "evidence")
KF_FILE = os.path.join(ROOT, "known_findings.json")

REAL_COMPONENTS = ["orquesta.conducting", "orquesta.machines", "orquesta.events", "orquesta.statuses",
                   "orquesta.graphing", "orquesta.composers.native", "orquesta.specs.*", "orquesta.expressions.* (real YAQL and Jinja)",
                   "orquesta.utils.*", "orquesta.requests"]
STUB_COMPONENTS = ["provider engine handlers", "message bus", "action runners", "operator", "database (in-memory copy of serialize())",
                   "clock (virtual)"]


def prog_to_json(prog):
    d = {}
    for k, v in prog.items():
        if k.startswith("_"):
            continue
        d[k] = v
    return json.loads(json.dumps(d))


def prog_from_json(d):
    prog = copy.deepcopy(d)
    prog["_features"] = gen.features(prog)
    return prog


def load_kf():
    if not os.path.exists(KF_FILE):
        return []
    with open(KF_FILE) as f:
        return json.load(f)


# --------------------------------------------------------------------------- worker side

def _worker(args):
    prop, tier, base_seed, start, count, deadline = args
    faulthandler.enable()
    P = props.get(prop)
    out = []
    for i in range(start, start + count):
        if time.time() > deadline:
            break
        seed = derive_seed(base_seed, prop, i)
        try:
            r = P.evaluate(seed, tier)
        except Exception as e:  # noqa  harness error: never a violation
            out.append({"seed": seed, "i": i, "outcome": "harness", "trace": traceback.format_exc()[-3000:]})
            continue
        out.append(summarise(r, seed, i))
    return out


def summarise(r, seed, i):
    s = {"seed": seed, "i": i, "outcome": r["outcome"], "stats": r.get("stats") or {},
         "nontrivial": bool(r.get("nontrivial")), "sig": r.get("sig"), "sim_s": r.get("sim_s", 0.0),
         "states": sorted(r.get("states") or []), "final": r.get("final")}
    e = r.get("error")
    if r["outcome"] == "violation":
        s["violation"] = {"prop": e.prop, "clause": e.clause, "msg": e.msg, "tags": e.tags, "step": e.step}
        s["case"] = r.get("case")
    elif r["outcome"] == "kf":
        s["kf"] = {"kf": e.kf, "prop": e.prop, "clause": e.clause, "msg": e.msg[:300], "tags": e.tags}
    elif r["outcome"] in ("generror", "abort"):
        s["msg"] = str(e)[:500]
    if r.get("sample") is not None:
        s["sample"] = r["sample"]
    if r.get("extra") is not None:
        s["extra"] = r["extra"]
    return s


# --------------------------------------------------------------------------- parent side

def run_check(prop, tier, base_seed, jobs=None, budget_s=None, runs=None, quiet=False):
    t0 = time.time()
    P = props.get(prop)
    jobs = jobs or min(16, os.cpu_count() or 4)
    n_runs = runs or P.RUNS[tier]
    budget = budget_s or P.BUDGET_S[tier]
    deadline = t0 + budget
    kf_all = load_kf()
    kf_lines, violations, harness_errors = [], [], []
    stale = []
    kf_index = dict((k["id"], k) for k in kf_all)
    for k in kf_all:
        for alias in k.get("signatures") or []:
            kf_index.setdefault(alias, k)
    # -- 1. replay the findings of this property
    for k in kf_all:
        if prop not in k.get("property", []):
            continue
        path = os.path.join(ROOT, (k.get("examples") or {}).get(prop) or k["example_replay"])
        if not os.path.exists(path):
            continue
        rp = json.load(open(path))
        res = replay_file(path, as_prop=prop)
        if k["status"] == "open":
            if res["reproduced"]:
                kf_lines.append("KNOWN-FINDING: property=%s %s: %s" % (prop, k["id"], k["what_fails"]))
            else:
                stale.append(k["id"])
        else:
            if res["outcome"] in ("violation", "kf"):
                violations.append({"seed": rp.get("seed"), "violation": res["violation"], "replay_path": path,
                                   "regression_of": k["id"]})
    # -- 2. seeded search
    chunk = max(1, min(25, n_runs // (jobs * 4) or 1))
    tasks = [(prop, tier, base_seed, s, min(chunk, n_runs - s), deadline) for s in range(0, n_runs, chunk)]
    results = []
    ctx = multiprocessing.get_context("fork")
    faulthandler.dump_traceback_later(budget + 600, exit=True)
    with concurrent.futures.ProcessPoolExecutor(max_workers=jobs, mp_context=ctx) as ex:
        futs = [ex.submit(_worker, t) for t in tasks]
        for f in futs:
            try:
                results.extend(f.result(timeout=budget + 300))
            except Exception as e:  # noqa
                harness_errors.append("worker failed: %r" % (e,))
    faulthandler.cancel_dump_traceback_later()
    results.sort(key=lambda r: r["i"])
    # -- 2b. property-specific relation over the batch (e.g. cross-interpreter digests)
    post_cov = {}
    post_viol = []
    if hasattr(P, "post") and not harness_errors:
        try:
            post_viol, post_cov = P.post(results, tier, base_seed, jobs)
        except Exception as e:  # noqa
            harness_errors.append("post step failed: %s" % traceback.format_exc()[-2000:])
    # -- 3. classify
    agg = {}
    kf_counts = {}
    kf_first = {}
    sigs = set()
    states = set()
    samples = []
    finals = {}
    sim_s = 0.0
    for r in results:
        for k, v in (r.get("stats") or {}).items():
            agg[k] = agg.get(k, 0) + v
        sim_s += r.get("sim_s") or 0.0
        for s in r.get("states") or []:
            states.add(tuple(s) if isinstance(s, list) else s)
        finals[r.get("final")] = finals.get(r.get("final"), 0) + 1
        if r["outcome"] == "harness":
            harness_errors.append("seed %s: %s" % (r["seed"], r["trace"]))
        elif r["outcome"] == "generror":
            harness_errors.append("seed %s: generator error: %s" % (r["seed"], r.get("msg")))
        elif r["outcome"] == "violation":
            violations.append(r)
        elif r["outcome"] == "kf":
            k = r["kf"]["kf"]
            kf_counts[k] = kf_counts.get(k, 0) + 1
            kf_first.setdefault(k, r)
        if r.get("nontrivial") and r.get("sig"):
            sigs.add(r["sig"])
        if r.get("sample") is not None and len(samples) < 3 and r.get("nontrivial"):
            samples.append(r["sample"])
    if not samples:
        samples = [r["sample"] for r in results if r.get("sample") is not None][:2]
    violations.extend(post_viol)
    # known findings hit by the search: only `open` ones are tolerated
    for k, n in sorted(kf_counts.items()):
        ent = kf_index.get(k)
        if ent is None or ent["status"] != "open":
            if ent is not None and ent["status"] == "fixed":
                msg = "the finding %s, repaired by %s, has returned: %s" % (ent["id"], ent.get("commit"), ent["what_fails"][:300])
                clause = "fixed_finding_returned"
            else:
                msg, clause = "signature %s matched but no open entry lists it" % k, "known_finding_unlisted"
            r0 = dict(kf_first.get(k) or {})
            rpath = None
            if r0.get("seed") is not None and r0.get("case") is None:
                try:        # (cases of known-finding runs are not shipped back by the workers)
                    r0["case"] = P.evaluate(r0["seed"], tier).get("case")
                except Exception:  # noqa
                    pass
            if r0.get("case") is not None:
                r0["case"] = dict(r0["case"], kf_strict=True)
                os.makedirs(REPLAYS, exist_ok=True)
                rpath = os.path.join(REPLAYS, "%s-%s.json" % (prop, r0.get("seed")))
                with open(rpath, "w") as f:
                    json.dump({"property": prop, "clause": clause, "seed": r0.get("seed"), "tier": tier, "tags": [], "kf": k,
                               "violation": {"message": msg, "step": None}, "case": r0["case"]}, f, indent=1, default=str)
            violations.append({"seed": r0.get("seed"), "violation": {"prop": prop, "clause": clause, "msg": msg, "tags": []},
                               "case": None, "replay_path": rpath})
        elif prop in ent["property"]:
            line = "KNOWN-FINDING: property=%s %s: %s" % (prop, k, ent["what_fails"])
            if line not in kf_lines:
                kf_lines.append(line)
    # -- 4. minimise + write replay for the first violations (distinct clauses)
    reported = []
    seen_clause = set()
    for v in violations:
        vi = v["violation"]
        key = (vi["prop"], vi["clause"])
        if key in seen_clause:
            continue
        seen_clause.add(key)
        path = v.get("replay_path")
        if path is None and v.get("case") is not None:
            path = write_replay(prop, tier, v)
        reported.append((vi, path))
    wall = time.time() - t0
    n_eval = len([r for r in results if r["outcome"] in ("ok", "violation", "kf", "abort")])
    ev = {
        "property_id": prop, "tier": tier, "seed": int(base_seed), "level": "exploration",
        "coverage": {
            "evaluations": n_eval,
            "distinct_nontrivial": len(sigs),
            "rule": P.RULE,
            "samples": samples,
            "runs_per_hour": int(n_eval / wall * 3600) if wall > 0 else 0,
            "simulated_seconds": round(sim_s, 1),
            "api_calls": agg.get("api_calls", 0),
            "fault_kinds_fired": dict([(k[6:], v) for k, v in sorted(agg.items()) if k.startswith("fault_")] +
                                      [(k[6:], v) for k, v in sorted(post_cov.items()) if k.startswith("fault_")]),
            "probes": dict((k[6:], v) for k, v in sorted(agg.items()) if k.startswith("probe_")),
            "distinct_abstract_states": len(states),
            "distinct_schedule_signatures": len(set(r.get("sig") for r in results if r.get("sig"))),
            "final_status_counts": dict((str(k), v) for k, v in sorted(finals.items(), key=lambda kv: str(kv[0]))),
            "known_findings_matched": kf_counts,
            "known_findings_not_reproduced_by_their_example": stale,
            "aborted_runs_foreign_cause": len([r for r in results if r["outcome"] == "abort"]),
            "relation_coverage": post_cov,
            "real_components": REAL_COMPONENTS, "stub_components": STUB_COMPONENTS,
            "workers": jobs, "runs_requested": n_runs,
            "other": dict((k, v) for k, v in sorted(agg.items()) if not k.startswith(("fault_", "probe_", "api_calls"))),
        },
        "assumptions": P.ASSUMPTIONS,
        "wall_s": round(wall, 2),
        "violations": len(reported),
    }
    os.makedirs(EVIDENCE, exist_ok=True)
    with open(os.path.join(EVIDENCE, "%s.json" % prop), "w") as f:
        json.dump(ev, f, indent=1, sort_keys=True, default=str)
    for line in kf_lines:
        print(line)
    if harness_errors:
        for h in harness_errors[:5]:
            sys.stderr.write("HARNESS-ERROR %s\n" % h)
        print("harness errors: %d (see stderr); no verdict" % len(harness_errors))
        return 2
    if reported:
        for vi, path in reported:
            print("VIOLATION property=%s replay=%s" % (prop, path))
            print("  clause=%s %s" % (vi["clause"], vi["msg"][:400]))
        return 1
    if not quiet:
        print("%s %s: %d runs, %d distinct non-trivial, %.1fs, no violation" % (prop, tier, n_eval, len(sigs), wall))
    return 0


def write_replay(prop, tier, v):
    """Minimise, write the replay file, confirm it reproduces in a fresh interpreter."""
    os.makedirs(REPLAYS, exist_ok=True)
    vi = v["violation"]
    case = v["case"]
    P = props.get(prop)
    try:
        case = P.shrink(case, vi)
    except Exception:  # noqa
        sys.stderr.write("shrink failed:\n%s\n" % traceback.format_exc())
    doc = {"property": prop, "clause": vi["clause"], "seed": v["seed"], "tier": tier, "tags": vi.get("tags") or [],
           "violation": {"message": vi["msg"], "step": vi.get("step")}, "case": case}
    path = os.path.join(REPLAYS, "%s-%s.json" % (prop, v["seed"]))
    with open(path, "w") as f:
        json.dump(doc, f, indent=1, default=str)
    # fresh interpreter, other hash seed
    env = dict(os.environ)
    env["PYTHONHASHSEED"] = "12345"
    try:
        out = subprocess.run([sys.executable, os.path.join(ROOT, "check"), prop, "--replay", path], env=env,
                             capture_output=True, text=True, timeout=300)
        if out.returncode != 1:
            sys.stderr.write("replay in fresh interpreter did not reproduce (rc=%s):\n%s\n%s\n"
                             % (out.returncode, out.stdout[-1000:], out.stderr[-2000:]))
            doc["fresh_interpreter_reproduced"] = False
        else:
            doc["fresh_interpreter_reproduced"] = True
        with open(path, "w") as f:
            json.dump(doc, f, indent=1, default=str)
    except Exception as e:  # noqa
        sys.stderr.write("fresh interpreter replay failed: %r\n" % (e,))
    return path


def replay_file(path, as_prop=None):
    doc = json.load(open(path))
    prop = as_prop or doc["property"]
    P = props.get(doc.get("replay_with") or doc["property"])
    r = P.replay_case(doc["case"], as_prop=as_prop)
    e = r.get("error")
    out = {"outcome": r["outcome"], "reproduced": False, "violation": None}
    want_clause = doc.get("clause")
    if r["outcome"] == "violation":
        out["violation"] = {"prop": e.prop, "clause": e.clause, "msg": e.msg, "tags": e.tags, "step": e.step}
        out["reproduced"] = (as_prop is None or e.prop == as_prop)
    elif r["outcome"] == "kf":
        out["violation"] = {"prop": e.prop, "clause": e.clause, "msg": e.msg, "tags": e.tags, "kf": e.kf}
        out["reproduced"] = True
    return out


def main(argv):
    import argparse
    ap = argparse.ArgumentParser()
    ap.add_argument("prop")
    ap.add_argument("--tier", default=os.environ.get("VERIF_TIER", "quick"))
    ap.add_argument("--seed", type=int, default=None)
    ap.add_argument("--replay", default=None)
    ap.add_argument("--runs", type=int, default=None)
    ap.add_argument("--jobs", type=int, default=None)
    ap.add_argument("--budget", type=float, default=None)
    a = ap.parse_args(argv)
    if a.replay:
        res = replay_file(a.replay)
        if res["outcome"] == "kf":
            vi = res["violation"]
            ents = [k for k in load_kf() if vi.get("kf") in [k["id"]] + list(k.get("signatures") or [])]
            if not any(k["status"] == "open" for k in ents):
                # the signature of a finding that is not (or no longer) listed as open: a violation
                print("VIOLATION property=%s replay=%s" % (vi["prop"], a.replay))
                print("  clause=%s signature %s (%s): %s" % (vi["clause"], vi.get("kf"),
                                                             "repaired earlier, has returned" if ents else "not listed", vi["msg"][:400]))
                return 1
            print("KNOWN-FINDING: property=%s %s (clause %s): %s" % (vi["prop"], vi.get("kf"), vi["clause"], vi["msg"][:400]))
            return 0
        if res["outcome"] in ("violation", "kf"):
            vi = res["violation"]
            print("VIOLATION property=%s replay=%s" % (vi["prop"], a.replay))
            print("  clause=%s %s" % (vi["clause"], vi["msg"][:600]))
            return 1
        print("replay: no violation (outcome %s)" % res["outcome"])
        return 0
    seed = a.seed if a.seed is not None else int(os.environ.get("VERIF_SEED", "20260925"))
    tier = a.tier if a.tier in ("quick", "thorough") else "quick"
    return run_check(a.prop, tier, seed, jobs=a.jobs, budget_s=a.budget, runs=a.runs)
