"""Reference model ("ledger"): a deliberately naive bookkeeping of what the definition prescribes
for the outcomes that occurred.  It consumes the provider's events (offers, starts, completions,
requests) and never looks at Orquesta's parser, composer, graph or evaluators: everything is
derived from the generator AST with the harness's own evaluator (lang.py).

It predicts *what may be offered* (credits, barriers, retry/rerun entitlements), the expected
context of every execution (ideal causal model + an "as-built" index-list model used only to
recognise the known context-merge finding precisely), and the facts the status oracles need.
Violations are reported through `self.report(prop, clause, msg, tags=(), kf=None)`; the world
decides which clauses are enabled for the running check.
"""
from collections import OrderedDict

from dst import lang
from dst.kernel import jeq, canon


class Write(object):
    __slots__ = ("wid", "var", "value", "src")

    def __init__(self, wid, var, value, src):
        self.wid, self.var, self.value, self.src = wid, var, value, src

    def __repr__(self):
        return "W%d(%s=%r@%s)" % (self.wid, self.var, self.value, self.src)


class RefCtx(object):
    """Expected context: ideal (vals + hist) and as-built (ordered delta ids)."""
    __slots__ = ("vals", "hist", "idxs", "racy")

    def __init__(self, vals, hist, idxs, racy=frozenset()):
        self.vals, self.hist, self.idxs, self.racy = vals, hist, idxs, racy

    def values(self):
        return {k: w.value for k, w in self.vals.items()}


class Exec(object):
    def __init__(self, xid, task, route, visit, attempt, kind):
        self.xid, self.task, self.route, self.visit, self.attempt, self.kind = xid, task, route, visit, attempt, kind
        self.ctx_offered = None      # user-visible variables the conductor rendered the task with
        self.ref = None              # RefCtx expected
        self.parents = []
        self.state = "offered"       # offered | running | done | retried
        self.task_status = None
        self.result = None
        self.items = None            # with-items bookkeeping
        self.delay = None
        self.fired = []              # [(transition idx, [targets])]
        self.remediated = False
        self.cleanup = False
        self.reran = False

    def key(self):
        return "%s#%d.%d@%s" % (self.task, self.visit, self.attempt, self.route)


class Credit(object):
    def __init__(self, task, route, kind, ref, parents, cleanup=False, tr=None, retry_of=None, delay=None):
        self.task, self.route, self.kind, self.ref = task, route, kind, ref
        self.parents, self.cleanup, self.tr = parents, cleanup, tr
        self.retry_of, self.delay = retry_of, delay
        self.consumed = False
        self.barrier = None
        self.branches = []
        self.beside_fail = False
        self.void = False

    def __repr__(self):
        return "Credit(%s@%s %s)" % (self.task, self.route, self.kind)


def task_status_of(action_status):
    if action_status == "succeeded":
        return "succeeded"
    if action_status in ("failed", "timeout", "abandoned"):
        return "failed"
    if action_status == "canceled":
        return "canceled"
    return None


class Ledger(object):
    def __init__(self, prog, report, stats):
        self.p = prog
        self.report = report
        self.stats = stats
        self.inc = lang.inbound(prog)
        self.cyc = {n: lang.in_cycle(prog, n) for n in prog["tasks"]}
        self.split = {n: lang.is_split(prog, n, self.inc) for n in prog["tasks"]}
        self.req = {n: lang.join_requirement(prog, n, self.inc) for n in prog["tasks"] if lang.is_join(prog, n)}
        self.execs = []
        self.credits = []
        self.barriers = {}           # (join, route) -> dict(arrivals=[(src, xid, tr, ref)], fired, late, srcs)
        self.deltas = []
        self.nw = 0
        self.visits = {}             # (task, route) -> count of non-retry executions
        self.started = False
        # facts for the status oracles
        self.fail_cmd = []           # xids whose fired transition contained `fail`
        self.runtime_errors = []     # (xid|None, where)
        self.unhandled = []          # xids failed without remediation
        self.cancel_requested = False
        self.cmd_execs = []          # pseudo executions of engine commands (terminal contexts)
        self.racy_vars = set()
        self.tainted_writes = set()
        self.racy_conditions = 0
        self.root = None
        self.reruns = 0
        self.routes_seen = {}
        self.rerun_loose = False
        self.seqno = 0

    # ------------------------------------------------------------------ contexts
    def new_write(self, var, value, src):
        self.nw += 1
        return Write(self.nw, var, value, src)

    def init_root(self, values):
        """values: var -> value of the initial context (input + vars) as the harness computed it."""
        d = OrderedDict()
        for k, v in values.items():
            d[k] = self.new_write(k, v, "root")
        self.deltas.append(d)
        self.root = RefCtx(dict(d), frozenset(w.wid for w in d.values()), [0])
        return self.root

    def child_ctx(self, parent, new_writes, tainted=()):
        """tainted: variables among new_writes whose value was computed from an order-decided
        (racy) variable; taint propagates through copies, a clean re-publish clears it."""
        if not new_writes:
            return RefCtx(dict(parent.vals), parent.hist, list(parent.idxs), parent.racy)
        self.deltas.append(dict(new_writes))
        vals = dict(parent.vals)
        vals.update(new_writes)
        hist = parent.hist | frozenset(w.wid for w in new_writes.values())
        racy = (parent.racy - frozenset(new_writes.keys())) | frozenset(tainted)
        for w in new_writes.values():
            if w.var in tainted:
                self.tainted_writes.add(w.wid)
        return RefCtx(vals, hist, list(parent.idxs) + [len(self.deltas) - 1], racy)

    def merge_ctx(self, merged, arriving):
        """Fold an arriving branch into a merged context (join barrier / terminal merge).
        Ideal rule: the arriving value of v replaces the merged one unless the merged lineage had
        already seen that write (then the arrival merely inherited an older value)."""
        vals = dict(merged.vals)
        racy = set(merged.racy) | set(arriving.racy)
        for v, w in arriving.vals.items():
            m = vals.get(v)
            if m is None:
                vals[v] = w
            elif w.wid == m.wid or w.wid in merged.hist:
                pass
            else:
                if m.wid not in arriving.hist:
                    racy.add(v)              # causally independent writes met: arrival order decided
                vals[v] = w
        idxs = list(merged.idxs)
        rest = list(arriving.idxs)
        if 0 in rest:
            rest.remove(0)
        idxs.extend(rest)
        return RefCtx(vals, merged.hist | arriving.hist, idxs, frozenset(racy))

    def asbuilt_values(self, idxs):
        out = {}
        for i in idxs:
            for k, w in self.deltas[i].items():
                out[k] = w.value
        return out

    # ------------------------------------------------------------------ start
    def on_start(self):
        self.started = True
        for t in lang.start_tasks(self.p):
            self.credits.append(Credit(t, 0, "start", self.root, []))

    # ------------------------------------------------------------------ offers
    def open_credits(self, task=None):
        return [c for c in self.credits if not c.consumed and not c.void and (task is None or c.task == task)]

    def match(self, task, route, offered_vals):
        # a credit into a split task gets a fresh route from the engine: it can only match a route
        # this task has never been offered under
        fresh = route not in self.routes_seen.get(task, ())
        cands = [c for c in self.open_credits(task) if (c.route is None and fresh) or c.route == route]
        if not cands:
            return None
        exact = [c for c in cands if c.ref is not None and jeq(c.ref.values(), offered_vals)]
        pool = exact or cands
        # prefer known route over unknown
        pool.sort(key=lambda c: (c.route is None,))
        return pool[0]

    def live_exec(self, task, route):
        for x in reversed(self.execs):
            if x.task == task and x.route == route and x.state in ("offered", "running"):
                return x
        return None

    def on_offer(self, task, route, offered_vals, delay, wf_status):
        """Returns the Exec for this offer (always, even when unjustified) ."""
        tags = []
        if task in lang.ENGINE_COMMANDS or task not in self.p["tasks"]:
            kf = "KF-rerun-default-offers-fail-command" if (self.reruns and task == "fail") else None
            tg = ["command_offered"] + (["rerun_default_after_fail_command"] if kf else [])
            self.report("C17", "only_requested", "engine command %r offered as a task" % task, tags=tg, kf=kf)
            self.report("C01", "justified", "engine command or unknown task %r offered as a task" % task,
                        tags=tg, kf=kf)
            x = Exec(len(self.execs), task, route, 1, 1, "bogus")
            x.ctx_offered = offered_vals
            x.ref = RefCtx(dict(self.root.vals), self.root.hist, [0])
            self.execs.append(x)
            return x
        live = self.live_exec(task, route)
        c = self.match(task, route, offered_vals)
        kf = None
        b = self.barriers.get((task, route))
        if c is None and b is not None and b["fired"] and b["late"]:
            # precise signature of the known finding: a partial join (N < inbound) whose barrier was
            # already consumed is offered again after a further inbound branch arrived
            tags = ["join_partial", "arrival_after_join_started"]
            kf = "KF-join-partial-late-arrival"
        elif c is None and task in self.req and b is not None and b.get("rearmed") and not b["fired"]:
            # precise signature: after a rerun a join downstream of the re-executed task is offered
            # before the re-executed branches arrived again (the engine counts the records of the
            # previous execution of those branches)
            tags = ["rerun_join_downstream"]
            kf = "KF-rerun-join-counts-stale-arrivals"
        elif c is None and task in self.req and self.cyc.get(task) and self.visits.get((task, route), 0) >= 1:
            # precise signature: a join inside a loop offered on a later iteration before its
            # barrier is satisfied again (the engine counts the previous iteration's records)
            tags = ["join_in_loop"]
            kf = "KF-join-in-loop-stale-arrivals"
        if live is not None:
            # a with-items task is legitimately offered again (next items) while it is running
            if live.items is not None and c is None and kf is None:
                return live
            if c is None:
                self.report("C01", "once", "task %s@%s offered again while its execution %s is live"
                            % (task, route, live.key()), tags=tags, kf=kf)
        if c is None:
            if kf == "KF-join-partial-late-arrival":
                self.report("C07", "runs_once", "join %s@%s offered again after a late arrival (barrier already "
                            "consumed)" % (task, route), tags=tags, kf=kf)
            elif kf == "KF-rerun-join-counts-stale-arrivals":
                self.report("C17", "nothing_repeated", "join %s@%s offered after the rerun with %d of %d inbound tasks "
                            "re-arrived" % (task, route, len(b["srcs"]), self.req[task]), tags=tags, kf=kf)
            elif kf is not None:
                self.report("C07", "barrier_satisfied", "join %s@%s in a loop offered on a later iteration with %d of "
                            "%d inbound tasks arrived in this iteration" % (task, route, len(b["srcs"]) if b else 0,
                                                                           self.req[task]), tags=tags, kf=kf)
            elif task in self.req:
                self.report("C07", "barrier_satisfied", "join %s@%s offered but the ledger holds %d of %d "
                            "distinct satisfied inbound tasks" % (task, route, len(b["srcs"]) if b else 0,
                                                                  self.req[task]), tags=["join"])
            if self.reruns and not self.rerun_loose:
                self.report("C17", "nothing_repeated", "after the rerun request task %s@%s was offered although it was "
                            "neither requested, nor downstream of a requested task, nor still due" % (task, route),
                            tags=tags, kf=kf)
            self.report("C01", "justified", "task %s@%s offered without a start/credit/retry/rerun "
                        "entitlement" % (task, route), tags=tags, kf=kf)
            vis = self.visits.get((task, route), 0) + 1
            self.visits[(task, route)] = vis
            x = Exec(len(self.execs), task, route, vis, 1, "unjustified")
            x.ref = RefCtx(dict(self.root.vals), self.root.hist, [0])
            x.ref_unknown = True
        else:
            c.consumed = True
            if c.route is None:
                c.route = route
            if c.kind == "retry":
                prev = c.retry_of
                x = Exec(len(self.execs), task, route, prev.visit, prev.attempt + 1, "retry")
            else:
                vis = self.visits.get((task, route), 0) + 1
                self.visits[(task, route)] = vis
                x = Exec(len(self.execs), task, route, vis, 1, c.kind)
                if c.kind == "rerun":
                    x.rerun_of = getattr(c, "rerun_of", None)
                    x.reset_items = getattr(c, "reset_items", False)
            x.ref = c.ref
            x.parents = list(c.parents)
            x.cleanup = c.cleanup
            x.credit = c
            if c.barrier is not None:
                c.barrier["offered"] = True
        x.ctx_offered = offered_vals
        x.delay = delay
        self.seqno += 1
        x.seq = self.seqno
        if x.kind == "retry" and c is not None and c.retry_of is not None:
            x.seq = getattr(c.retry_of, "seq", x.seq)      # a retried attempt continues the same record
        self.routes_seen.setdefault(task, set()).add(route)
        self.execs.append(x)
        t = self.p["tasks"][task]
        if t.get("with") is not None:
            x.items = {"n": None, "offered": [], "inflight": set(), "done": {}, "results": None,
                       "stopped": False}
            old = getattr(x, "rerun_of", None)
            if old is not None and old.items is not None and old.items.get("n") is not None \
                    and old.task_status != "succeeded":
                # re-execution of a with-items task: items that had succeeded stay done unless
                # reset_items was asked for; only the others are offered again
                x.items["n"] = old.items["n"]
                x.items["exp_items"] = old.items.get("exp_items")
                x.items["results"] = list(old.items["results"] or [])
                if not getattr(x, "reset_items", False):
                    for i, stt in sorted(old.items["done"].items()):
                        if stt == "succeeded":
                            x.items["done"][i] = stt
                            x.items["offered"].append(i)
                    x.items["carried"] = sorted(x.items["done"])
                else:
                    x.items["results"] = [None] * old.items["n"]
        return x

    # ------------------------------------------------------------------ completion
    def retry_policy(self, task):
        t = self.p["tasks"][task]
        for tr in t.get("next") or []:
            if "retry" in (tr.get("do") or []):
                return {"count": 3, "when": tr.get("when") or ["completed"], "delay": None, "cmd": True}
        return t.get("retry")

    def retry_allowed(self, x, status, result):
        """None if no policy; else (allowed, count, delay) by the harness's own evaluation."""
        pol = self.retry_policy(x.task)
        if pol is None:
            return None
        vals = x.ctx_offered
        try:
            cnt = pol["count"] if isinstance(pol["count"], int) else lang.eval_value(pol["count"], None, vals)
            dly = pol.get("delay")
            if dly is not None and not isinstance(dly, int):
                dly = lang.eval_value(dly, None, vals)
            if not isinstance(cnt, int) or isinstance(cnt, bool) or (dly is not None and (not isinstance(dly, int) or isinstance(dly, bool))):
                return ("fault", None, None)     # a value of the wrong type: the engine rejects it
            if x.attempt - 1 >= cnt:
                return (False, cnt, dly)
            if status not in ("succeeded", "failed"):
                return (False, cnt, dly)         # only a succeeded or failed execution can be retried
            if pol.get("when") is None:
                ok = status == "failed"
            else:
                ok = bool(lang.eval_cond(pol["when"], status, result, vals))
            return (ok, cnt, dly)
        except lang.EvalFault:
            return ("fault", None, None)

    def on_retried(self, x):
        """The conductor turned this completed attempt into a retry."""
        x.state = "retried"
        pol_delay = None
        ra = self.retry_allowed(x, x.task_status, x.result)
        if ra and ra[0] is not False:
            pol_delay = ra[2]
        c = Credit(x.task, x.route, "retry", x.ref, list(x.parents), cleanup=x.cleanup, retry_of=x,
                   delay=pol_delay or 0)
        self.credits.append(c)
        return c

    def on_completed(self, x, status, result, wf_status_before):
        """The execution completed with task status `status` and was not retried: evaluate the
        AST transitions with the harness's evaluator and hand out credits / arrivals / commands."""
        x.state = "done"
        x.task_status = status
        x.result = result
        t = self.p["tasks"].get(x.task)
        if t is None:
            return
        vals = x.ctx_offered
        remediated = False
        any_fired = False
        ncred = len(self.credits)
        any_fail = False
        pairs = []
        for i, tr in enumerate(t.get("next") or []):
            do = list(tr.get("do") or [])
            if do == ["retry"]:
                continue
            try:
                fired = True if tr.get("when") is None else bool(lang.eval_cond(tr["when"], status, result, vals))
            except lang.EvalFault:
                self.runtime_errors.append((x.xid, "when[%d]" % i))
                continue
            if not fired:
                continue
            # publishes, sequentially on a rolling context
            rolling = dict(vals)
            new = OrderedDict()
            bad = False
            racy_now = set(x.ref.racy)
            tainted = set()
            if tr.get("when") is not None and (lang.reads(tr["when"]) & racy_now):
                self.racy_conditions += 1
            for var, vnode in tr.get("publish") or []:
                try:
                    val = lang.eval_value(vnode, result, rolling)
                except lang.EvalFault:
                    self.runtime_errors.append((x.xid, "publish[%d].%s" % (i, var)))
                    bad = True
                    continue
                rolling[var] = val
                new[var] = self.new_write(var, val, "%s.%d" % (x.key(), i))
                if lang.reads(vnode) & racy_now:
                    tainted.add(var)
                    racy_now.add(var)
                else:
                    tainted.discard(var)
                    racy_now.discard(var)
            if bad:
                continue
            any_fired = True
            out = self.child_ctx(x.ref, new, tainted)
            x.fired.append((i, do))
            has_fail = "fail" in do
            any_fail = any_fail or has_fail
            for tgt in do:
                pairs.append((tgt, i, out, has_fail))
        # the engine walks the outgoing edges ordered by target name (then transition position);
        # that order decides record order, hence the merge order of terminal contexts
        for tgt, i, out, has_fail in sorted(pairs, key=lambda p_: (p_[0], p_[1])):
            if True:
                if tgt == "retry":
                    continue
                if tgt == "continue":
                    self._cmd_exec(x, tgt, out)
                    continue
                remediated = True
                if tgt == "noop":
                    self._cmd_exec(x, tgt, out)
                    continue
                if tgt == "fail":
                    self.fail_cmd.append(x.xid)
                    self._cmd_exec(x, tgt, out)
                    continue
                if tgt not in self.p["tasks"]:
                    continue
                if tgt in self.req:
                    self._arrive(tgt, x, i, out)
                else:
                    r = None if self.split[tgt] else x.route
                    cr = Credit(tgt, r, "transition", out, [x.xid], cleanup=has_fail, tr=i)
                    cr.beside_fail = has_fail
                    self.credits.append(cr)
        if any_fail:
            # the engine keeps every task that became ready at this completion runnable after the
            # fail command (run-on-fail): the documented clean-up exception
            for c in self.credits[ncred:]:
                c.cleanup = True
            for b in self.barriers.values():
                if b["credit"] is not None and not b["credit"].consumed and x.xid in b["credit"].parents:
                    b["credit"].cleanup = True
        x.remediated = remediated
        if status == "failed" and not remediated:
            self.unhandled.append(x.xid)

    def _cmd_exec(self, x, cmd, out):
        self.seqno += 1
        self.cmd_execs.append({"cmd": cmd, "parent": x.xid, "ref": out, "order": self.seqno})

    def _arrive(self, join, x, tr, out):
        key = (join, x.route)
        b = self.barriers.get(key)
        if b is None:
            b = {"arrivals": [], "srcs": [], "fired": False, "late": 0, "credit": None, "offered": False,
                 "join": join, "route": x.route}
            self.barriers[key] = b
        if b["fired"] and b["offered"]:
            # the join already ran for this satisfaction: a late arrival must not run it again
            if self.cyc.get(join):
                # new loop iteration: start a fresh barrier generation
                b = {"arrivals": [], "srcs": [], "fired": False, "late": 0, "credit": None, "offered": False,
                     "join": join, "route": x.route}
                self.barriers[key] = b
            else:
                b["late"] += 1
                self.stats["probe_arrival_after_join_started"] = self.stats.get("probe_arrival_after_join_started", 0) + 1
                return
        b["arrivals"].append((x.task, x.xid, tr, out))
        if x.task not in b["srcs"]:
            b["srcs"].append(x.task)
        if b["credit"] is not None and not b["credit"].consumed:
            # satisfied but not yet started: the arriving branch is still folded into its context
            b["credit"].ref = self.merge_ctx(b["credit"].ref, out)
            b["credit"].parents.append(x.xid)
            b["credit"].branches.append(out)
            return
        if not b["fired"] and len(b["srcs"]) >= self.req[join]:
            ref = None
            for (_, _, _, o) in b["arrivals"]:
                ref = o if ref is None else self.merge_ctx(ref, o)
            c = Credit(join, x.route, "barrier", ref, [a[1] for a in b["arrivals"]])
            c.branches = [a[3] for a in b["arrivals"]]
            c.barrier = b
            b["credit"] = c
            b["fired"] = True
            self.credits.append(c)

    # ------------------------------------------------------------------ rerun
    def ancestors(self, x):
        seen = set()
        stack = list(x.parents)
        while stack:
            i = stack.pop()
            if i in seen:
                continue
            seen.add(i)
            stack.extend(self.execs[i].parents)
        return seen

    def descendants(self, x):
        out = set()
        for y in self.execs:
            if y is not x and x.xid in self.ancestors(y):
                out.add(y.xid)
        return out

    def reachable_tasks(self, task):
        seen = set()
        stack = [task]
        while stack:
            n = stack.pop()
            for tr in lang.transitions(self.p, n) if n in self.p["tasks"] else []:
                for tgt in tr.get("do") or []:
                    if tgt in self.p["tasks"] and tgt not in seen:
                        seen.add(tgt)
                        stack.append(tgt)
        return seen

    def latest_exec_by_record(self):
        m = {}
        for x in self.execs:
            if getattr(x, "rec_idx", None) is not None:
                m[x.rec_idx] = x
        return m

    def on_rerun(self, reqs, state, records_before):
        """An accepted rerun.  reqs: None (default) or [[task, route, reset_items]].  Checks the
        selection the conductor recorded against the request, and hands out rerun entitlements."""
        self.reruns += 1
        selected = list((state.get("reruns") or [[]])[-1])
        by_rec = self.latest_exec_by_record()
        sel_execs = []
        for i in selected:
            rec = records_before[i] if i < len(records_before) else {}
            x = by_rec.get(i)
            if rec.get("id") in lang.ENGINE_COMMANDS:
                kf = "KF-rerun-default-offers-fail-command" if (reqs is None and rec.get("id") == "fail") else None
                self.report("C17", "only_requested", "rerun selected the engine command %r (record #%d) as a task to "
                            "re-execute" % (rec.get("id"), i), tags=["rerun_default_after_fail_command"] if kf else [], kf=kf)
                continue
            if x is None:
                continue
            if reqs is None and x.remediated and x.state == "done":
                # precise signature: the failure of this execution was handled (a transition was
                # satisfied, its successors are staged or ran); it is flagged terminal only because
                # its completion was reported after the workflow had already failed elsewhere
                self.report("C17", "only_requested", "default rerun selected %s although its failure was handled by a "
                            "transition (successors %r stay due and will run again after the re-execution)"
                            % (x.key(), [d for _, do in x.fired for d in do]), tags=["rerun_default_remediated"],
                            kf="KF-rerun-default-selects-remediated-task")
            if reqs is None and rec.get("status") not in ("failed", "timeout", "abandoned"):
                self.report("C17", "only_requested", "default rerun selected %s whose status is %r (not failed)"
                            % (x.key(), rec.get("status")))
            sel_execs.append(x)
        if reqs is not None:
            want = {}
            for task, route, reset in reqs:
                cand = [x for x in self.execs if x.task == task and x.route == route and x.kind != "bogus"]
                if cand:
                    want[(task, route)] = (cand[-1], bool(reset))
            # a request that is downstream of another request collapses into it
            keep = {}
            for k, (x, reset) in want.items():
                anc = self.ancestors(x)
                if not any(o is not x and o.xid in anc for (o, _) in want.values()):
                    keep[k] = (x, reset)
            exp = sorted(x.key() for (x, _) in keep.values())
            got = sorted(x.key() for x in sel_execs)
            if exp != got:
                kf, tags = None, []
                if len(keep) != len(want) or len(want) > 1:
                    # precise signature: requests that are downstream of another request were not
                    # collapsed (get_task_sequence only collects direct successors, and the
                    # collapse keeps a request whose own successors are not in the other's list)
                    kf, tags = "KF-rerun-requests-not-collapsed", ["rerun_requests_downstream"]
                self.report("C17", "only_requested", "rerun of %r selected %r, expected %r (requests downstream of "
                            "another request collapse)" % (reqs, got, exp), tags=tags, kf=kf)
        resets = dict(((t, r), bool(z)) for t, r, z in (reqs or []))
        if any(self.cyc.get(x.task) for x in sel_execs):
            # re-executing part of a loop next to successors that are still due merges or repeats
            # loop iterations in ways the statement does not pin down: offers are not judged
            self.rerun_loose = True
        for x in sel_execs:
            x.reran = True
            c = Credit(x.task, x.route, "rerun", x.ref, list(x.parents), cleanup=False)
            c.rerun_of = x
            c.reset_items = resets.get((x.task, x.route), False)
            self.credits.append(c)
            if x.xid in self.unhandled:
                self.unhandled.remove(x.xid)
            self.fail_cmd = [i for i in self.fail_cmd if i != x.xid]
            self.runtime_errors = [e for e in self.runtime_errors if e[0] != x.xid]
            # whatever follows from the re-executed task runs again: re-arm the joins downstream
            desc = self.descendants(x) | set([x.xid])
            reach = self.reachable_tasks(x.task)
            for (j, r), b in list(self.barriers.items()):
                if j in reach:
                    b["arrivals"] = [a for a in b["arrivals"] if a[1] not in desc]
                    b["srcs"] = []
                    for a in b["arrivals"]:
                        if a[0] not in b["srcs"]:
                            b["srcs"].append(a[0])
                    b["fired"] = False
                    b["offered"] = False
                    b["late"] = 0
                    b["rearmed"] = True
                    if b["credit"] is not None and not b["credit"].consumed:
                        b["credit"].void = True
                    b["credit"] = None
            # successors the old execution had already earned but that never started stay due
            # (the statement lets "work that was still due" start); the re-execution earns its own
        return sel_execs

    # ------------------------------------------------------------------ queries for oracles
    def unsatisfied_barriers(self):
        return [b for b in self.barriers.values() if not b["fired"] and b["arrivals"]]

    def outstanding(self):
        """Open credits that the conductor still owes an offer for (ready work)."""
        return [c for c in self.open_credits()]

    def leaves(self, with_seq=False):
        """Executions (and engine-command pseudo executions) after which nothing further ran,
        in the order their records were created."""
        out = []
        for x in self.execs:
            if x.state == "done" and not any(
                    [tgt for tgt in do if tgt in self.p["tasks"] or tgt in ("continue", "noop", "fail")]
                    for _, do in x.fired):
                out.append((getattr(x, "seq", x.xid), x.ref))
        for c in self.cmd_execs:
            out.append((c["order"], c["ref"]))
        out.sort(key=lambda e: e[0])
        if with_seq:
            return out
        return [r for _, r in out]
