"""Per-property configurations: which clauses are enabled, which shapes are generated, which
faults are injected at which rates, what counts as a non-trivial run, budgets."""
import copy
import json
import os

from dst import driver
from dst import lang
from dst.kernel import Keyed, digest, canon

ALL_PROPS = ["C01", "C02", "C03", "C04", "C05", "C06", "C07", "C08", "C09", "C10", "C11", "C12", "C13",
             "C15", "C17", "C18", "C19"]

COMMON_ASSUMPTIONS = [
    "provider contract of DESIGN.md section 2.2 (serialised API calls; only offered actions are started, once, "
    "in the handler that received the offer; per-action lifecycle order; canceled only after a cancel request)",
    "the harness's own evaluator of the generator mini-language agrees with YAQL/Jinja on the generated expressions "
    "(cross-checked at build time by tools/selftest.py)",
    "a clean batch is evidence, not proof: the schedule/fault space is sampled",
]

KF_GATES = dict(join_partial=True, join_in_loop=True, retry_when_completed=True, with_items_in_loop=True,
                dict_republish=True)


_KF_PROPS = None


def kf_props():
    global _KF_PROPS
    if _KF_PROPS is None:
        from dst.checks import load_kf
        _KF_PROPS = dict((k["id"], list(k["property"]) + (["*"] if k.get("scope") == "control" else []))
                         for k in load_kf())
    return _KF_PROPS


def _case(r, profile_name, extra=None):
    from dst.checks import prog_to_json
    s = r["sched"]
    c = {"mode": "single", "profile": profile_name, "ast": prog_to_json(r["prog"]),
         "definition": lang.render(r["prog"]), "ops": copy.deepcopy(r["ops"]),
         "world_opts": dict((k, v) for k, v in s.opts.items() if k != "kf_props")}
    if extra:
        c.update(extra)
    return c


def _sample(r):
    w = r["world"]
    return {"tasks": len(r["prog"]["tasks"]), "features": sorted(r["prog"].get("_features") or []),
            "final_status": w.status, "ops": r["ops"][:30], "n_ops": len(r["ops"])}


class SingleRun(object):
    """A property decided on single simulated runs (invariants + end-of-run history checks)."""
    prop = None
    RUNS = {"quick": 6000, "thorough": 80000}
    BUDGET_S = {"quick": 75, "thorough": 560}
    RULE = ""
    ASSUMPTIONS = COMMON_ASSUMPTIONS
    kf_share = 0.2
    faults = {}
    gates = {}
    world = {}
    extra_enabled = ()
    require_features = None
    forbid_features = None
    acyclic = False
    sizes = None

    def profile(self, seed, tier, as_prop=None):
        K = Keyed(seed)
        gates = dict(self.gates)
        if K.u("profile", "kf") < self.kf_share:
            for k, v in KF_GATES.items():
                if K.u("profile", "kfgate", k) < 0.5:
                    gates[k] = v
        gates = self.tune_gates(K, gates)
        if os.environ.get("VERIF_FORCE_GATES"):
            gates.update(json.loads(os.environ["VERIF_FORCE_GATES"]))
        p = {"name": self.prop, "enabled": [as_prop or self.prop] + list(self.extra_enabled), "gates": gates,
             "faults": self.tune_faults(K, dict(self.faults)), "world": dict(self.world, kf_props=kf_props()),
             "require_features": self.require_features, "forbid_features": self.forbid_features,
             "acyclic": self.acyclic, "size": self.sizes}
        if os.environ.get("VERIF_FORCE_FAULTS"):
            p["faults"].update(json.loads(os.environ["VERIF_FORCE_FAULTS"]))
        return p

    def tune_gates(self, K, gates):
        return gates

    def tune_faults(self, K, faults):
        # swarm: each enabled fault kind is switched off in some runs, and its rate is varied
        out = {}
        for k, v in faults.items():
            if isinstance(v, float) and v > 0 and k not in ("p_fail",):
                x = K.u("swarm", k)
                if x < 0.25:
                    out[k] = 0.0
                elif x < 0.5:
                    out[k] = v * 0.5
                elif x > 0.9:
                    out[k] = min(1.0, v * 2.5)
                else:
                    out[k] = v
            else:
                out[k] = v
        return out

    def nontrivial(self, r):
        return True

    def evaluate(self, seed, tier):
        profile = self.profile(seed, tier)
        r = driver.run_seed(seed, profile)
        return self.package(r, profile)

    def package(self, r, profile):
        w = r["world"]
        out = {"outcome": r["outcome"], "error": r.get("error"), "stats": r["stats"], "final": w.status if w else None}
        out["sim_s"] = r["sched"].heap.now
        out["states"] = [list(s) for s in (w.abstract_states if w else [])]
        try:
            out["nontrivial"] = bool(self.nontrivial(r)) and r["outcome"] in ("ok",)
        except Exception:  # noqa
            out["nontrivial"] = False
        out["sig"] = digest([canon(r["world"].definition) if w and w.definition else "", w.sched_sig if w else []])
        out["sample"] = _sample(r) if out["nontrivial"] else None
        if r["outcome"] in ("violation", "kf"):
            out["case"] = _case(r, self.prop)
        return out

    def replay_profile(self, as_prop=None):
        return {"name": self.prop, "enabled": [as_prop or self.prop] + list(self.extra_enabled),
                "world": dict(self.world, kf_props=kf_props())}

    def replay_case(self, case, as_prop=None):
        from dst.checks import prog_from_json
        prog = prog_from_json(case["ast"])
        profile = self.replay_profile(as_prop)
        opts = dict(case.get("world_opts") or {})
        # (a replay written for a signature that is not listed as open stops at it, as the search did)
        opts["kf_through"] = not case.get("kf_strict")
        return driver.replay(prog, case["ops"], profile, opts)

    def shrink(self, case, vi):
        from dst.checks import prog_from_json
        prog = prog_from_json(case["ast"])
        profile = self.replay_profile()
        ops, ok = driver.shrink_ops(prog, case["ops"], profile, vi["prop"], vi["clause"], kf=vi.get("kf"),
                                    opts=case.get("world_opts"))
        if ok:
            case = dict(case)
            case["ops_unshrunk"] = len(case["ops"])
            case["ops"] = ops
        return case


# --------------------------------------------------------------------------- the properties

class C01(SingleRun):
    prop = "C01"
    RULE = ("one seed = one generated definition (2-12 tasks; sequences, forks, decisions, joins, splits, engine commands, "
            "counter-bounded loops, with-items, retry) + outcome table + latencies + poll/restart/duplicate faults; "
            "non-trivial = the definition forks or splits AND >= 2 completions were delivered in an order different from "
            "start order; distinct = hash of (rendered definition, op-kind sequence)")
    faults = dict(poll_skip=0.1, poll_twice=0.1, restart=0.05, dup=0.05)

    def nontrivial(self, r):
        f = r["prog"]["_features"]
        return bool(f & {"fork", "split", "fork_or_decision"}) and r["stats"].get("fault_reorder", 0) >= 2


class C02(SingleRun):
    prop = "C02"
    RULE = ("as C01 plus pause/resume/cancel/inadmissible requests at keyed handler gaps, action failures/timeouts/abandons, "
            "engine commands; status clauses evaluated after every handler; non-trivial = the run visited >= 3 distinct workflow "
            "statuses and a control request landed while >= 1 action was in flight")
    faults = dict(poll_skip=0.05, poll_twice=0.05, restart=0.03, pause=0.04, resume_early=0.1, cancel=0.04,
                  bad_request=0.03, pending=0.05, cancel_while_pausing=0.1, act_cancel_solo=0.02, early_pause=0.3,
                  early_cancel=0.15, act_paused=0.04)

    def nontrivial(self, r):
        w = r["world"]
        s = r["stats"]
        return len(set(w.status_trace)) >= 3 and (s.get("probe_pause_with_inflight", 0) + s.get("probe_cancel_with_inflight", 0)) > 0


class C03(SingleRun):
    prop = "C03"
    RULE = ("all shapes incl. with-items, retry, joins, loops; pause/resume/cancel/rerun; resting-status clause evaluated at every "
            "quiescent point (nothing in flight, fresh get_next_tasks() empty); non-trivial = a quiescent point was reached with a "
            "status other than succeeded, or >= 2 quiescent points in one run")
    faults = dict(poll_skip=0.1, poll_twice=0.05, restart=0.03, pause=0.04, resume_early=0.05, cancel=0.04,
                  bad_request=0.02, rerun=0.5, pending=0.05, cancel_while_pausing=0.1, act_cancel_solo=0.02, early_pause=0.3,
                  early_cancel=0.15, cancel_at_retry=0.05, pause_at_retry=0.05, act_paused=0.04)

    def profile(self, seed, tier, as_prop=None):
        p = SingleRun.profile(self, seed, tier, as_prop)
        if Keyed(seed).u("profile", "pause_cancel_items") < 0.15:
            # two requests in a row over a with-items window: pause with items held back, cancel
            # before the workflow has come to rest, a sibling action reporting last
            p["require_features"] = ["with_items", "fork"]
            p["faults"].update(pause=0.2, cancel=0.0, cancel_while_pausing=0.5, resume_early=0.0, rerun=0.0,
                               act_canceling=0.05, p_fail=0.05)
        elif Keyed(seed).u("profile", "pause_cancel_items") < 0.3:
            # a pause/cancel that starts from a task event (a sibling is canceled on its own or asks
            # for input) while a with-items task is between items or was just resumed
            p["require_features"] = ["with_items", "fork"]
            p["faults"].update(pause=0.12, resume_early=0.5, cancel=0.0, rerun=0.0, act_cancel_solo=0.15, pending=0.15,
                               poll_skip=0.3, p_fail=0.05, act_paused=0.0)
        return p

    def nontrivial(self, r):
        rp = r["world"].resting_points
        return len(rp) >= 2 or any(s != "succeeded" for s in rp)


class C04(SingleRun):
    prop = "C04"
    RULE = ("runs driven to a terminal status with actions still in flight (failure-prone outcome tables), then a suffix of late "
            "completions, duplicates, every kind of status request, polls and restarts; every request in every state is checked for "
            "side effects when rejected; non-trivial = >= 1 late completion and >= 1 rejected request")
    faults = dict(p_fail=0.3, poll_skip=0.05, poll_twice=0.1, restart=0.05, dup=0.1, bad_request=0.08,
                  suffix_requests=0.6, pause=0.02, cancel=0.01, act_cancel_solo=0.03, early_cancel=0.15, early_pause=0.1)

    def tune_faults(self, K, faults):
        f = SingleRun.tune_faults(self, K, faults)
        f["p_fail"] = K.choice([0.15, 0.3, 0.5], "pfail4")
        return f

    def nontrivial(self, r):
        w = r["world"]
        return w.late_after_terminal >= 1 and w.rejected_requests >= 1


class C06(SingleRun):
    prop = "C06"
    RULE = ("publish-heavy definitions (unique and conflicting names, re-publication, publishes on transitions that do not lead to "
            "the reader) with forks/joins/splits/loops; every offered context, rendered input and the output compared with the causal "
            "model; non-trivial = a join or terminal merge where two arrivals carried different writes of one variable")
    faults = dict(poll_skip=0.1, restart=0.03, p_fail=0.05)
    gates = dict(publish=True)

    def tune_gates(self, K, gates):
        gates["publish"] = True
        return gates

    def tune_faults(self, K, faults):
        f = SingleRun.tune_faults(self, K, faults)
        # the output of a workflow that failed is rendered "in the same manner": a share of the
        # runs fails often (fail-fast with other branches still running, unhandled failures)
        f["p_fail"] = K.choice([0.05, 0.05, 0.05, 0.3], "pfail6")
        return f

    def profile(self, seed, tier, as_prop=None):
        p = SingleRun.profile(self, seed, tier, as_prop)
        p["force_gates"] = {"publish": True}
        return p

    def nontrivial(self, r):
        L = r["world"].ledger
        for x in L.execs:
            if len(x.parents) > 1:
                return True
        return r["stats"].get("output_var_racy_skipped", 0) > 0


class C07(SingleRun):
    prop = "C07"
    RULE = ("definitions with join: all / join: N over 2-5 inbound branches of unequal depth, branches that fail / are remediated / "
            "conditionally skip the join; arrival orders explored through latencies; non-trivial = a join was offered after >= 2 "
            "arrivals delivered out of start order, or a barrier ended unsatisfied")
    faults = dict(poll_skip=0.15, poll_twice=0.05, restart=0.03, p_fail=0.15, pause=0.03, resume_early=0.1)
    require_features = ["join"]
    kf_share = 0.3

    def profile(self, seed, tier, as_prop=None):
        p = SingleRun.profile(self, seed, tier, as_prop)
        p["force_gates"] = {"join": True, "fork": True}
        p["size"] = [4, 5, 6, 7, 8, 10, 12]
        if Keyed(seed).u("profile", "items_fail") < 0.25:
            # a with-items task that failed and was remediated keeps a flagged entry in the staging
            # list for the rest of the run: joins must be judged reachable or not regardless of it
            p["faults"]["p_fail"] = 0.35
            p["require_features"] = ["join", "with_items"]
        return p

    def nontrivial(self, r):
        L = r["world"].ledger
        return bool(L.unsatisfied_barriers()) or (any(b["fired"] for b in L.barriers.values()) and r["stats"].get("fault_reorder", 0) >= 1)


class C10(SingleRun):
    prop = "C10"
    RULE = ("cancel requested at a keyed handler gap from running / pausing / paused / resuming; in-flight actions afterwards report "
            "success, failure, timeout or canceled; joins, retries and with-items windows downstream; non-trivial = >= 1 action in "
            "flight at the request and a join, retry or with-items task in the definition")
    faults = dict(poll_skip=0.05, restart=0.03, cancel=0.12, pause=0.04, resume_early=0.1, p_fail=0.1, bad_request=0.02,
                  cancel_while_pausing=0.1, act_cancel_solo=0.02, early_pause=0.2, early_cancel=0.3, cancel_at_retry=0.15, act_paused=0.03)

    def profile(self, seed, tier, as_prop=None):
        p = SingleRun.profile(self, seed, tier, as_prop)
        if Keyed(seed).u("profile", "pause_cancel_items") < 0.12:
            p["require_features"] = ["with_items", "fork"]
            p["faults"].update(pause=0.2, cancel=0.0, cancel_while_pausing=0.5, resume_early=0.0, act_canceling=0.05)
        elif Keyed(seed).u("profile", "pause_cancel_items") < 0.27:
            p["require_features"] = ["with_items", "fork"]
            p["faults"].update(pause=0.12, resume_early=0.5, cancel=0.0, act_cancel_solo=0.2, poll_skip=0.3, p_fail=0.05,
                               act_paused=0.0)
        return p

    def nontrivial(self, r):
        f = r["prog"]["_features"]
        return r["stats"].get("probe_cancel_with_inflight", 0) > 0 and bool(f & {"join", "retry", "with_items"})


class C11(SingleRun):
    prop = "C11"
    RULE = ("(a) one expression of the definition replaced at a keyed position by one that fails on the delivered data (undefined "
            "variable, missing key, wrong type, unknown function; YAQL or Jinja); (b) expr_base.evaluate wrapped to raise the "
            "evaluator's exception at the k-th top-level evaluation; non-trivial = the fault fired inside update_task_state or "
            "get_next_tasks (not at start-up)")
    faults = dict(eval_fault=0.15, poll_skip=0.05, restart=0.02, p_fail=0.05, cancel=0.04, pause=0.03, resume_early=0.1,
                  pending=0.06, act_paused=0.03, act_cancel_solo=0.02, cancel_while_pausing=0.1)
    world = dict(seam=True, expect_clean=False)

    def profile(self, seed, tier, as_prop=None):
        p = SingleRun.profile(self, seed, tier, as_prop)
        K = Keyed(seed)
        if K.u("profile", "datafault") < 0.5:
            p["data_fault"] = True
            p["faults"]["eval_fault"] = 0.0
            p["world"]["data_fault"] = True
        return p

    def nontrivial(self, r):
        w = r["world"]
        return (w.fault_fired and w.fault_where in ("update_task_state", "get_next_tasks")) or bool(r["stats"].get("probe_data_fault_runtime"))


class C12(SingleRun):
    prop = "C12"
    RULE = ("with-items tasks over n = 0..6 items, concurrency absent / literal / expression; item outcome vectors; item completions in "
            "any order interleaved with polls, pause/cancel, restarts; non-trivial = n >= 3, concurrency < n and >= 1 item completion "
            "delivered out of index order")
    faults = dict(poll_skip=0.15, poll_twice=0.15, restart=0.05, pause=0.03, resume_early=0.1, cancel=0.01, p_fail=0.1,
                  act_cancel_solo=0.02, cancel_while_pausing=0.1)
    require_features = ["with_items"]

    def profile(self, seed, tier, as_prop=None):
        p = SingleRun.profile(self, seed, tier, as_prop)
        p["force_gates"] = {"with_items": True}
        p["size"] = [2, 3, 4, 5, 6]
        return p

    def nontrivial(self, r):
        for x in r["world"].ledger.execs:
            it = x.items
            if it and it.get("n") and it["n"] >= 3 and it.get("k") and it["k"] < it["n"]:
                return r["stats"].get("fault_reorder", 0) >= 1
        return False


class C13(SingleRun):
    prop = "C13"
    RULE = ("retry count 0..3 (literal or expression), default / custom when, delay, per-attempt outcome sequences, placement in "
            "sequence / branch / loop, sibling branches running, pause/cancel elsewhere; non-trivial = >= 1 retry happened while a "
            "sibling branch had an action in flight")
    faults = dict(poll_skip=0.1, poll_twice=0.05, restart=0.05, pause=0.02, cancel=0.01, p_fail=0.35, resume_early=0.1,
                  cancel_at_retry=0.04, pause_at_retry=0.06)
    require_features = ["retry"]

    def profile(self, seed, tier, as_prop=None):
        p = SingleRun.profile(self, seed, tier, as_prop)
        p["force_gates"] = {"retry": True}
        return p

    def nontrivial(self, r):
        return r["stats"].get("probe_retry_with_sibling_inflight", 0) > 0


class C15(SingleRun):
    prop = "C15"
    RULE = ("every generated, inspection-accepted definition conducted under the full fault mix (reorder, poll, restart, duplicate, "
            "pause/resume/cancel, inadmissible requests, rerun, action failures); any exception other than the documented rejections "
            "leaving instantiate/inspect/compose/any conductor call is a violation; non-trivial = >= 1 fault kind fired and >= 10 API calls")
    faults = dict(poll_skip=0.1, poll_twice=0.1, restart=0.05, dup=0.05, pause=0.03, resume_early=0.1, cancel=0.02,
                  bad_request=0.05, rerun=0.4, suffix_requests=0.2, pending=0.04, act_cancel_solo=0.02, act_paused=0.03, early_pause=0.2, early_cancel=0.1, cancel_while_pausing=0.1,
                  cancel_at_retry=0.03, pause_at_retry=0.03)

    def nontrivial(self, r):
        s = r["stats"]
        return s.get("api_calls", 0) >= 10 and any(k.startswith("fault_") and v for k, v in s.items())

    # -- admission step (the inspection half of the statement; sampled inputs, see DESIGN 5/C15) ----------
    ADMISSION_SHARE = 0.12
    MUTANTS = ("undefined_task", "reserved_name", "no_start", "bad_grammar", "unassigned_var")

    def evaluate(self, seed, tier):
        K = Keyed(seed)
        if K.u("profile", "admission") >= self.ADMISSION_SHARE:
            return SingleRun.evaluate(self, seed, tier)
        from dst.world import Violation
        from orquesta.specs import native as native_specs
        profile = self.profile(seed, tier)
        prog = driver.make_program(K, profile)
        rng = K.rng("admission")
        d = lang.render(prog)
        kind = rng.choice(self.MUTANTS)
        stats = {"admission_" + kind: 1}
        marker = self.mutate(d, prog, kind, rng)
        out = {"outcome": "ok", "stats": stats, "final": None, "nontrivial": False, "sig": None}
        if marker is None:
            stats["admission_not_applicable"] = 1
            return out
        try:
            spec = native_specs.WorkflowSpec(copy.deepcopy(d))
            report = spec.inspect()
        except Exception as e:  # noqa
            out["outcome"] = "violation"
            out["error"] = Violation("C15", "no_internal_error", "inspect raised %s: %s on a %s mutant" % (type(e).__name__, e, kind))
            out["case"] = {"mode": "admission", "definition": d, "kind": kind, "marker": marker}
            return out
        text = canon(report)
        markers = marker if isinstance(marker, list) else [marker]
        if not report or not all(m in text for m in markers):
            out["outcome"] = "violation"
            out["error"] = Violation("C15", "reported", "inspection %s for a definition with a %s fault (%r): %s"
                                     % ("accepted" if not report else "does not name the element", kind, marker, text[:300]))
            out["case"] = {"mode": "admission", "definition": d, "kind": kind, "marker": marker}
        out["nontrivial"] = True
        out["sig"] = digest([kind, marker, canon(d)])
        out["sample"] = {"admission_mutant": kind, "marker": marker, "report_sections": sorted(report.keys())}
        return out

    @staticmethod
    def mutate(d, prog, kind, rng):
        tasks = d["tasks"]
        names = list(tasks.keys())
        withnext = [n for n in names if tasks[n].get("next")]
        if kind == "undefined_task":
            cands = [(n, i) for n in withnext for i, tr in enumerate(tasks[n]["next"])
                     if isinstance(tr.get("do"), list) and any(t in tasks for t in tr["do"])]
            if not cands:
                return None
            n, i = cands[rng.randrange(len(cands))]
            do = tasks[n]["next"][i]["do"]
            j = [k for k, t in enumerate(do) if t in tasks][0]
            # keep the original target reachable through another edge so that only the reference is broken
            do.append("nosuch_task_zz")
            return "nosuch_task_zz"
        if kind == "reserved_name":
            name = rng.choice(["noop", "fail", "continue", "retry"])
            tasks[name] = {"action": "core.noop"}
            return [name, "is reserved with special function"]
        if kind == "no_start":
            starts = lang.start_tasks(prog)
            for st in starts:
                leaf = names[-1] if names[-1] != st else names[0]
                tasks[leaf].setdefault("next", []).append({"do": [st]})
            return "Unable to identify any tasks to start"
        if kind == "bad_grammar":
            bad = rng.choice(["<% 1 +/ 2 %>", "{{ 1 +/ 2 }}", "<% ctx(v0 %>", "{{ ctx('v0' }}",
                              # a valid expression followed by a stray operand
                              "{{ ctx('v0') ctx('v0') }}", "{{ ctx('v0') + 1 2 }}", "<% ctx(v0) ctx(v0) %>", "<% ctx(v0) + 1 2 %>"])
            n = names[rng.randrange(len(names))]
            where = rng.choice(["input", "when", "publish"])
            if where == "when" and tasks[n].get("next"):
                tasks[n]["next"][0]["when"] = bad
            elif where == "publish" and tasks[n].get("next"):
                tasks[n]["next"][0].setdefault("publish", [])
                if isinstance(tasks[n]["next"][0]["publish"], list):
                    tasks[n]["next"][0]["publish"].append({"zz_bad": bad})
                else:
                    return None
            else:
                tasks[n].setdefault("input", {})["zz_bad"] = bad
            return "expressions"
        if kind == "unassigned_var":
            ref = rng.choice(["<% ctx(zz_unassigned) %>", "<% ctx().zz_unassigned %>", "{{ ctx('zz_unassigned') }}",
                              "{{ ctx().zz_unassigned }}"])
            n = names[rng.randrange(len(names))]
            where = rng.choice(["input", "when", "publish", "output", "retry_when", "retry_count", "retry_delay", "delay"])
            if where.startswith("retry") or where == "delay":
                if where == "delay":
                    tasks[n]["delay"] = ref
                else:
                    r_ = tasks[n].setdefault("retry", {"count": 1})
                    r_[where[6:]] = ref if where != "retry_when" else ref.replace("%>", "= 1 %>").replace("}}", "== 1 }}")
                    # a retry command in `do` would override the block: drop it from this mutant
                    for tr in tasks[n].get("next") or []:
                        if isinstance(tr.get("do"), list) and "retry" in tr["do"]:
                            tr["do"] = [x_ for x_ in tr["do"] if x_ != "retry"] or ["noop"]
                        elif tr.get("do") == "retry":
                            tr["do"] = "noop"
            elif where == "when" and tasks[n].get("next"):
                tasks[n]["next"][0]["when"] = ref.replace("%>", "= 1 %>").replace("}}", "== 1 }}")
            elif where == "publish" and tasks[n].get("next") and isinstance(tasks[n]["next"][0].get("publish", []), list):
                # sometimes the first assignment of a variable reads the variable itself
                tasks[n]["next"][0].setdefault("publish", []).append({rng.choice(["zz_copy", "zz_unassigned"]): ref})
            elif where == "output":
                d.setdefault("output", []).append({rng.choice(["zz_out", "zz_unassigned"]): ref})
            else:
                tasks[n].setdefault("input", {})["zz_in"] = ref
            return "zz_unassigned"
        return None

    def replay_case(self, case, as_prop=None):
        if case.get("mode") != "admission":
            return SingleRun.replay_case(self, case, as_prop)
        from dst.world import Violation
        from orquesta.specs import native as native_specs
        try:
            report = native_specs.WorkflowSpec(copy.deepcopy(case["definition"])).inspect()
        except Exception as e:  # noqa
            return {"outcome": "violation", "error": Violation("C15", "no_internal_error", "inspect raised %r" % (e,)), "stats": {}}
        mk = case["marker"] if isinstance(case["marker"], list) else [case["marker"]]
        if not report or not all(m in canon(report) for m in mk):
            return {"outcome": "violation", "stats": {}, "error": Violation(
                "C15", "reported", "inspection does not report the %s fault (%r)" % (case["kind"], case["marker"]))}
        return {"outcome": "ok", "stats": {}}

    def shrink(self, case, vi):
        if case.get("mode") == "admission":
            return case
        return SingleRun.shrink(self, case, vi)


class C18(SingleRun):
    prop = "C18"
    RULE = ("all shapes with emphasis on multi-referenced tasks, with-items, loops, late arrivals, retries, reruns; consecutive "
            "persisted states diffed after every API call; non-trivial = the run appended >= 2 records for one task id or merged >= 2 "
            "arrivals into one entry")
    faults = dict(poll_skip=0.1, poll_twice=0.1, restart=0.03, dup=0.05, pause=0.02, cancel=0.01, rerun=0.4, p_fail=0.15,
                  act_cancel_solo=0.02, act_paused=0.03, cancel_at_retry=0.03, pause_at_retry=0.03)
    kf_share = 0.2

    def profile(self, seed, tier, as_prop=None):
        p = SingleRun.profile(self, seed, tier, as_prop)
        K = Keyed(seed)
        if K.u("profile", "latejoin") < 0.25:
            # an inbound branch arriving while the join it feeds is already running is where the
            # record of a started execution is most exposed (statement: "another branch arriving at
            # the same task later does not alter what a running or finished execution saw")
            p["gates"]["join_partial"] = True
            p["force_gates"] = {"join": True, "fork": True, "join_partial": True}
            p["require_features"] = ["join_partial"]
            p["faults"]["slow_branch"] = 0.6
        return p

    def nontrivial(self, r):
        w = r["world"]
        if not w.snap:
            return False
        ids = [t["id"] for t in w.snap["state"]["sequence"]]
        return len(ids) != len(set(ids)) or any(len(x.parents) > 1 for x in w.ledger.execs)


class C05(SingleRun):
    prop = "C05"
    RULE = ("twin execution: conductor L is never persisted, conductor R passes through deserialize(serialize()) at the points between "
            "API calls selected by the fault stream (rate 0.05..1); both receive deep-copied identical calls; results, exceptions, status "
            "and full persisted form compared after every call; non-trivial = >= 2 restores, at least one with a with-items task, a "
            "retry or a partially satisfied join live")
    faults = dict(poll_skip=0.05, poll_twice=0.1, restart=0.3, dup=0.05, pause=0.02, cancel=0.01, rerun=0.3, p_fail=0.15,
                  bad_request=0.02, pending=0.03, act_cancel_solo=0.02, act_paused=0.03, early_pause=0.2, early_cancel=0.1, cancel_while_pausing=0.1,
                  cancel_at_retry=0.03, pause_at_retry=0.03)
    world = dict(twin=True)

    def tune_faults(self, K, faults):
        f = SingleRun.tune_faults(self, K, faults)
        f["restart"] = K.choice([0.05, 0.2, 0.5, 1.0], "restart_rate")
        return f

    def profile(self, seed, tier, as_prop=None):
        p = SingleRun.profile(self, seed, tier, as_prop)
        if Keyed(seed).u("profile", "late_var") < 0.25:
            p["gates"]["late_var"] = "only" if Keyed(seed).u("profile", "late_only") < 0.5 else True
            p["world"]["expect_clean"] = False
            p["faults"]["p_fail"] = 0.3
        if Keyed(seed).u("profile", "output_all_fail") < 0.08:
            # state that decides whether the output is rendered again must survive a restart
            p["output_all_fail"] = True
            p["world"]["expect_clean"] = False
            p["faults"]["p_fail"] = 0.3
        return p

    def nontrivial(self, r):
        return r["stats"].get("probe_twin_restores", 0) >= 2


_REG = {}


def get(prop):
    if not _REG:
        for cls in (C01, C02, C03, C04, C05, C06, C07, C10, C11, C12, C13, C15, C18):
            _REG[cls.prop] = cls()
        from dst import twins
        twins.register(_REG)
    return _REG[prop]
