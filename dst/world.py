"""The simulated provider ("world"): engine handlers, runners' bookkeeping, operator requests,
crash/restart, evaluation-fault seam -- everything on the caller's side of Orquesta's public
API -- plus the monitors that evaluate the property clauses after every handler step.

A run is a list of *ops*; `World.apply(op)` executes one op against the real conductor and the
ledger.  The scheduler (driver.py) chooses ops from the seed; a replay just applies the recorded
list.  Ops name action identities, never positions, so shrunk lists stay meaningful: an op whose
action is not in flight is skipped deterministically.
"""
import copy
import hashlib
import json
import signal

from orquesta import conducting
from orquesta import events
from orquesta import exceptions as oexc
from orquesta import requests as orequests
from orquesta.expressions import base as expr_base
from orquesta.specs import native as native_specs

from dst import lang
from dst.kernel import canon, jeq, digest, Keyed
from dst.ledger import Ledger, task_status_of

TERMINAL_WF = ("succeeded", "failed", "canceled")
RESTING_WF = ("succeeded", "failed", "canceled", "paused")
ACTION_TERMINAL = ("succeeded", "failed", "timeout", "abandoned", "canceled")
CALL_ALARM_S = 10


class Violation(Exception):
    def __init__(self, prop, clause, msg, tags=(), kf=None, step=None):
        Exception.__init__(self, "%s.%s: %s" % (prop, clause, msg))
        self.prop, self.clause, self.msg, self.tags, self.kf, self.step = prop, clause, msg, list(tags), kf, step


class KnownFindingStop(Exception):
    def __init__(self, kf, prop, clause, msg, tags):
        Exception.__init__(self, "%s (%s.%s): %s" % (kf, prop, clause, msg))
        self.kf, self.prop, self.clause, self.msg, self.tags = kf, prop, clause, msg, list(tags)


class Abort(Exception):
    """The run cannot continue meaningfully (an exception escaped the conductor, a hang)."""


class GeneratorError(Exception):
    """The harness produced something it believes is impossible: a harness bug, never a violation."""


class CallHang(Exception):
    pass


def _alarm(signum, frame):
    raise CallHang()


REJECTIONS = {
    # InvalidEvent / InvalidStatus: a request for a status that is no workflow status at all
    # (timeout, abandoned, pending, retrying, garbage) is refused with these, before any effect
    "request_workflow_status": (oexc.InvalidWorkflowStatusTransition, oexc.InvalidEvent, oexc.InvalidStatus),
    "request_workflow_rerun": (oexc.WorkflowIsActiveAndNotRerunableError, oexc.InvalidTaskRerunRequest),
}


class Rejected(Exception):
    def __init__(self, e):
        Exception.__init__(self, "%s: %s" % (type(e).__name__, e))
        self.e = e


class World(object):
    def __init__(self, prog, enabled, stats, opts=None):
        """enabled: set of (prop, clause) or prop ids whose clauses raise Violation.
        stats: dict of counters shared with the driver.  opts: behaviour knobs."""
        self.p = prog
        self.enabled = enabled
        self.stats = stats
        self.o = dict(opts or {})
        self.definition = None
        self.spec = None
        self.c = None                   # the conductor (L)
        self.twin = None                # restored twin (R) for C05
        self.ledger = Ledger(prog, self.report, stats)
        self.inflight = {}              # aid -> dict(x, task, route, item, state)
        self.pending = {}               # actions that reported pending/paused
        self.step = 0
        self.calls = 0
        self.snap = None                # last full serialize()
        self.prev_state = None
        self.status = None
        self.status_trace = []
        self.terminal_seen = None
        self.rendered = False
        self.pause_req = False          # accepted pause not yet resumed
        self.ever_paused = False
        self.cancel_req = False
        self.queued_items_tasks = set()
        self.accepted_rerun = False
        self.fault_fired = 0
        self.fault_in = None            # k-th evaluation to fault (countdown)
        self.fault_where = None
        self.eval_count = 0
        self.errors_expected = []
        self.foreign = []               # violations of clauses that are not enabled
        self.kf_hits = []
        self.offers = []                # (step, task, route, aid list)
        self.abstract_states = set()
        self.status_after_fault = None
        self.durables = []
        self.log = []
        self.error_processed_while_not_canceling = False
        self.fault_seen_at_status = None
        self.runon_allowed = set()
        self.late_after_terminal = 0
        self.rejected_requests = 0
        self.nontrivial = {}
        self.sched_sig = []
        self._orig_eval = None
        self.dispatch_seen = set()
        self.delivered_events = {}
        self.render_attempted = set()
        self.render_ctx = {}
        self.resting_points = []

    # ------------------------------------------------------------------ reporting
    def is_enabled(self, prop, clause):
        return prop in self.enabled or (prop, clause) in self.enabled

    def report(self, prop, clause, msg, tags=(), kf=None):
        if kf is not None:
            self.kf_hits.append((kf, prop, clause))
            mine = self.is_enabled(prop, clause)
            props_of_kf = (self.o.get("kf_props") or {}).get(kf)
            # a control-flow finding derails the reference model for the rest of the run whatever
            # property is being checked; a data-only finding concerns only the listed properties
            related = mine or props_of_kf is None or "*" in props_of_kf or any(p in self.enabled for p in props_of_kf)
            if mine or (related and not self.o.get("kf_through")):
                # the run is tainted by a known finding that concerns the property under check
                raise KnownFindingStop(kf, prop, clause, msg, tags)
            self.foreign.append((prop, clause, "kf:" + kf))
            return
        if self.is_enabled(prop, clause):
            raise Violation(prop, clause, msg, tags, kf, self.step)
        self.foreign.append((prop, clause, msg[:200]))

    def bump(self, k, n=1):
        self.stats[k] = self.stats.get(k, 0) + n

    # ------------------------------------------------------------------ evaluation fault seam
    def install_seam(self):
        if self._orig_eval is not None:
            return
        self._orig_eval = expr_base.evaluate
        world = self
        orig = self._orig_eval
        depth = [0]

        def evaluate(statement, data=None):
            if depth[0] == 0:
                world.eval_count += 1
                if world.fault_in is not None:
                    world.fault_in -= 1
                    if world.fault_in <= 0:
                        world.fault_in = None
                        world.fault_fired += 1
                        world.fault_where = world.current_call
                        world.bump("fault_eval_fault_kth")
                        raise oexc.ExpressionEvaluationException(
                            "injected evaluation fault #%d at %r" % (world.eval_count, str(statement)[:60]))
            depth[0] += 1
            try:
                return orig(statement, data)
            finally:
                depth[0] -= 1

        expr_base.evaluate = evaluate

    def remove_seam(self):
        if self._orig_eval is not None:
            expr_base.evaluate = self._orig_eval
            self._orig_eval = None

    # ------------------------------------------------------------------ conductor calls
    current_call = None

    def call(self, method, *args, **kw):
        self.calls += 1
        self.bump("api_calls")
        self.current_call = method
        target = self.c
        if self.twin is not None:
            targs, tkw = copy.deepcopy(args), copy.deepcopy(kw)
        use_alarm = self.o.get("alarm", True)
        if use_alarm:
            signal.signal(signal.SIGALRM, _alarm)
            signal.setitimer(signal.ITIMER_REAL, CALL_ALARM_S)
        exc = None
        ret = None
        try:
            ret = getattr(target, method)(*args, **kw)
        except CallHang:
            exc = CallHang("%s did not return within %ds" % (method, CALL_ALARM_S))
        except REJECTIONS.get(method, ()) as e:
            exc = Rejected(e)
        except Exception as e:  # noqa
            exc = e
        finally:
            if use_alarm:
                signal.setitimer(signal.ITIMER_REAL, 0)
            self.current_call = None
        if self.twin is not None:
            self._twin_call(method, targs, tkw, ret, exc)
        if exc is None:
            return ret
        if isinstance(exc, Rejected):
            raise exc
        # an exception left a conductor API call on an admissible history
        tags = []
        kf = None
        name = type(exc).__name__
        msg = "%s raised %s: %s" % (method, name, str(exc)[:300])
        kf, tags = self.classify_escape(method, exc, args)
        if self.fault_fired or self.o.get("data_fault"):
            self.report("C11", "contained", msg, tags=tags, kf=kf)
        if isinstance(exc, CallHang):
            self.report("C15", "call_hang", msg, tags=tags, kf=kf)
        self.report("C15", "no_internal_error", msg, tags=tags, kf=kf)
        raise Abort(msg)

    def classify_escape(self, method, exc, args=()):
        """Recognise escapes that belong to a known finding (precise signatures only)."""
        if method == "update_task_state" and isinstance(exc, KeyError) and "items" in str(exc) and len(args) >= 2:
            b = self.ledger.barriers.get((args[0], args[1]))
            if b is not None and b["fired"] and b["late"]:
                # a late inbound arrival at a partial with-items join cleared the item list of
                # the running task; the next item event cannot be recorded
                return "KF-join-partial-late-arrival", ["join_partial", "arrival_after_join_started", "with_items_join"]
            live = self.ledger.live_exec(args[0], args[1])
            if self.ledger.reruns and live is not None and live.items is not None:
                # a rerun re-executed a predecessor of a with-items task that is still running from
                # before the rerun; its transition re-stages the task and clears the item list
                return "KF-rerun-restages-running-items-task", ["rerun_predecessor_of_running_items_task"]
        return None, []

    def _twin_call(self, method, args, kw, ret, exc):
        texc = None
        tret = None
        try:
            tret = getattr(self.twin, method)(*args, **kw)
        except Exception as e:  # noqa
            texc = e
        a = (type(exc.e).__name__ if isinstance(exc, Rejected) else type(exc).__name__, str(exc)) if exc else None
        b = (type(texc).__name__, str(texc)) if texc else None
        if isinstance(exc, Rejected):
            a = (type(exc.e).__name__, str(exc.e))
        if (a is None) != (b is None) or (a and b and a != b):
            self.report("C05", "same_result", "%s: live raised %r, restored raised %r" % (method, a, b))
        if exc is None and method == "get_next_tasks":
            if not jeq(norm_tasks(ret), norm_tasks(tret)):
                self.report("C05", "same_result", "get_next_tasks differs between live and restored conductor: "
                            "%s vs %s" % (canon(norm_tasks(ret))[:300], canon(norm_tasks(tret))[:300]))

    def roundtrip(self, which="main"):
        """Clean restart: the conductor is replaced by deserialize(deepcopy(serialize()))."""
        self.check_durable()
        if which == "twin":
            s = copy.deepcopy(self.twin.serialize())
            pristine = copy.deepcopy(s)
            self.twin = conducting.WorkflowConductor.deserialize(s)
            s2 = self.twin.serialize()
            if not jeq(pristine, s2):
                self.report("C05", "roundtrip_fixpoint", "deserialize(s).serialize() != s: %s" % first_diff(pristine, s2))
        else:
            s = copy.deepcopy(self.c.serialize())
            pristine = copy.deepcopy(s)
            self.c = conducting.WorkflowConductor.deserialize(s)
            s2 = self.c.serialize()
            if not jeq(pristine, s2):
                self.report("C05", "roundtrip_fixpoint", "deserialize(s).serialize() != s: %s" % first_diff(pristine, s2))
        # the provider keeps the persisted form (its database row); the restored conductor must
        # not share anything with it, or a later restore from the same row would differ
        self.durable_form, self.durable_pristine = s, pristine
        self.bump("fault_restart")

    durable_form = None
    durable_pristine = None

    def check_durable(self):
        if self.durable_form is not None and not jeq(self.durable_form, self.durable_pristine):
            d = first_diff(self.durable_pristine, self.durable_form)
            self.durable_form = None
            self.report("C05", "persisted_form_untouched", "the persisted form the conductor was restored from changed "
                        "while the restored conductor went on: %s" % d)

    # ------------------------------------------------------------------ ops
    def apply(self, op):
        self.step += 1
        kind = op[0]
        self.sched_sig.append(kind if kind != "deliver" else "d:" + op[1].split("@")[0])
        fn = getattr(self, "op_" + kind)
        r = fn(*op[1:])
        return r

    # -- start ------------------------------------------------------------------------------
    def op_start(self):
        self.definition = lang.render(self.p)
        try:
            self.spec = native_specs.WorkflowSpec(copy.deepcopy(self.definition))
            insp = self.spec.inspect()
        except Exception as e:  # noqa
            self.report("C15", "no_internal_error", "instantiate/inspect raised %s: %s" % (type(e).__name__, e))
            raise Abort("spec")
        self.inspection = insp
        if insp and self.o.get("expect_clean", True):
            raise GeneratorError("generated definition is not inspection-clean: %s" % canon(insp)[:400])
        self.c = conducting.WorkflowConductor(self.spec, inputs=copy.deepcopy(self.p.get("inputs") or {}))
        if self.o.get("chain"):
            g = self.c.graph.serialize()
            self.chain = hashlib.sha256((json.dumps(g, sort_keys=False, default=str) +
                                         json.dumps(insp, sort_keys=False, default=str)).encode()).hexdigest()
        if self.o.get("twin"):
            tspec = native_specs.WorkflowSpec(copy.deepcopy(self.definition))
            self.twin = conducting.WorkflowConductor(tspec, inputs=copy.deepcopy(self.p.get("inputs") or {}))
        if self.o.get("seam"):
            self.install_seam()
        # the harness's own rendering of the initial context
        init = {}
        init_fault = False
        rt = self.p.get("inputs") or {}
        for n, dv in self.p.get("input") or []:
            v = rt.get(n, dv)
            init[n] = copy.deepcopy(v)
        for n, v in self.p.get("vars") or []:
            if lang._is_node(v):
                try:
                    init[n] = lang.eval_value(v, None, init)
                except lang.EvalFault:
                    init_fault = True
            else:
                init[n] = copy.deepcopy(v)
        self.ledger.init_root(init)
        try:
            st = self.call("get_workflow_status")
        except Abort:
            raise
        self.after_call("init")
        if st == "failed":
            if not (init_fault or self.fault_fired):
                self.report("C02", "failure_has_cause", "workflow failed at initialisation without a rendering error")
            self.ledger.runtime_errors.append((None, "init"))
            self.note_error_processed()
            self.finish_if_completed()
            return
        if init_fault:
            self.report("C11", "fails", "input/vars rendering fault did not fail the workflow (status %s)" % st)
        path = self.o.get("start_path") or ["running"]
        for s in path:
            self.call("request_workflow_status", s)
            self.after_call("start")
        self.ledger.on_start()
        self.check_state("start")

    # -- dispatch ---------------------------------------------------------------------------
    def op_dispatch(self):
        st_before = self.status
        if st_before in ("running", "resuming", "requested", "scheduled", "delayed"):
            for c in self.ledger.open_credits():
                self.render_attempted.add(c.task)
                if c.ref is not None:
                    self.render_ctx[c.task] = c.ref.values()
        tasks = self.call("get_next_tasks")
        self.after_call("get_next_tasks")
        if self.o.get("chain"):
            self.chain = hashlib.sha256((self.chain + json.dumps(norm_tasks(tasks), sort_keys=False, default=str)).encode()).hexdigest()
        if self.o.get("poll_idem"):
            snap1 = self.snap
            tasks2 = self.call("get_next_tasks")
            self.after_call("get_next_tasks")
            if not jeq(norm_tasks(tasks), norm_tasks(tasks2)):
                self.report("C19", "poll_idempotent", "two consecutive get_next_tasks() differ: %s vs %s"
                            % (canon(norm_tasks(tasks))[:300], canon(norm_tasks(tasks2))[:300]))
            if not jeq(snap1, self.snap):
                self.report("C19", "poll_idempotent", "second get_next_tasks() changed the persisted state: %s"
                            % first_diff(snap1, self.snap))
        order = [(t["id"], t["route"]) for t in tasks]
        if order != sorted(order):
            self.report("C19", "stable_order", "get_next_tasks() not ordered by (id, route): %r" % (order,))
        if (self.fault_fired or self.o.get("data_fault")) and self.status == "failed" and self.ledger.runtime_errors:
            ce = self.cleanup_entitled()
            extra = [(t["id"], t["route"]) for t in tasks if (t["id"], t["route"]) not in ce]
            if extra:
                self.report("C11", "no_offer_after_error", "tasks %r offered after an expression error failed the "
                            "workflow" % (extra,))
        if tasks and st_before != "failed" and self.status == "failed":
            ce = self.cleanup_entitled()
            extra = [(t["id"], t["route"]) for t in tasks if (t["id"], t["route"]) not in ce]
            if extra:
                self.report("C11", "no_offer_after_error", "get_next_tasks() failed the workflow and offered %r in the "
                            "same answer" % (extra,))
                self.report("C04", "no_offers_after_terminal", "get_next_tasks() failed the workflow and offered %r in "
                            "the same answer" % (extra,))
        if self.expect_release is not None:
            exp, self.expect_release = self.expect_release, None
            got = sorted(t["id"] for t in tasks)
            if self.status in ("running", "resuming") and got != exp and not self.ledger.runtime_errors:
                self.report("C09", "resume_releases_held", "first dispatch after resume offered %r, held back were %r"
                            % (got, exp))
        n_started = 0
        self.terminal_at_offer = self.terminal_seen
        # every task of one batch was rendered by this get_next_tasks() call: remember the context
        # each entitlement carried now, because a task started earlier in the batch (an empty
        # with-items task completes at once) may add an arrival to a join offered later in it
        self.offer_refs = {}
        for t in tasks:
            c0 = self.ledger.match(t["id"], t["route"], dict((k, v) for k, v in t["ctx"].items()
                                                              if not k.startswith("__")))
            if c0 is not None and c0.ref is not None:
                self.offer_refs[(t["id"], t["route"])] = (c0, c0.ref)
        for t in tasks:
            n_started += self.start_task(t, st_before)
        self.finish_if_completed()
        self.check_state("dispatch")
        if not tasks:
            self.bump("dispatch_empty")
            if not self.inflight and self.pending and self.status in ("running", "resuming") and self.c is not None:
                # every action left at the provider is paused or waits for an answer, and nothing is
                # offered: that is a resting point too ("paused ... following ... a paused or pending task")
                self.bump("probe_rest_with_paused_actions_only")
                self.report("C03", "quiescent_rest", "only paused/pending actions remain (%r), nothing on offer, workflow "
                            "is %s" % (sorted(self.pending)[:3], self.status))
        return len(tasks)

    def start_task(self, t, st_before):
        tid, route = t["id"], t["route"]
        vals = dict((k, v) for k, v in t["ctx"].items() if not k.startswith("__"))
        L = self.ledger
        live = L.live_exec(tid, route)
        if live is not None and live.items is None and L.reruns:
            # after a rerun the engine may offer a task both as work that was still due and as a
            # successor of the re-executed task; two concurrent executions of one (task, route)
            # cannot be told apart by the conductor, so the history stops being meaningful
            self.bump("aborted_duplicate_offer_after_rerun")
            raise Abort("duplicate offer of %s@%s after a rerun" % (tid, route))
        x = L.on_offer(tid, route, vals, t.get("delay"), st_before)
        # -- offers in statuses that forbid them
        if st_before in ("pausing", "paused"):
            self.report("C09", "no_offer_while_paused", "task %s offered while workflow is %s" % (tid, st_before))
        if L.cancel_requested and not (st_before == "failed" and (L.runtime_errors or self.forced_failed)
                                       and (tid, route) in self.cleanup_entitled()):
            # (a runtime expression error processed after the request legitimately turns the
            # workflow failed, and the documented run-on-fail clean-up tasks may then be offered)
            self.report("C10", "no_offer_after_cancel", "task %s offered after cancellation was requested" % tid)
        if self.terminal_at_offer is not None and not self.accepted_rerun:
            if not (self.terminal_at_offer == "failed" and (tid, route) in self.cleanup_entitled()):
                self.report("C04", "no_offers_after_terminal", "task %s@%s offered after the workflow became %s"
                            % (tid, route, self.terminal_at_offer))
        new_exec = x is not live
        if self.accepted_rerun and new_exec and x.kind == "unjustified":
            pass
        spec_t = self.p["tasks"].get(tid) or {}
        # precise signature of a known finding: a with-items task inside a loop is visited again
        # after its previous visit on this route failed (the stale staged entry is reused)
        self.kf_items_loop = None
        if new_exec and spec_t.get("with") is not None and L.cyc.get(tid):
            prev = [e for e in L.execs if e is not x and e.task == tid and e.route == route and e.state == "done"]
            if prev and prev[-1].task_status == "failed":
                self.kf_items_loop = "KF-failed-items-task-revisited-in-loop"
        # -- context & rendered input (C06)
        if new_exec and x.ref is not None and not getattr(x, "ref_unknown", False):
            c0 = self.offer_refs.get((tid, route))
            self.check_ctx(x, vals, c0[1] if c0 is not None and c0[0] is getattr(x, "credit", None) else None)
            self.check_input(x, t, vals)
        # -- delay (C13 / general)
        if new_exec:
            self.check_delay(x, t, spec_t, vals)
        # -- start the actions
        acts = t.get("actions") or []
        started = 0
        if spec_t.get("with") is not None or "items_count" in t:
            started = self.start_items(x, t, spec_t, vals, new_exec)
        else:
            aid = "%s#%d.%d@%s" % (tid, x.visit, x.attempt, route)
            if aid in self.inflight:
                self.report("C01", "once", "action %s offered while already in flight" % aid)
                aid = aid + "+dup%d" % self.step
            first = self.o.get("first_event") or "running"
            if t.get("delay") and self.o.get("delayed_event", True):
                first = "delayed"
            if x.kind == "retry":
                # the task table defines only `running` (and cancel) for a task that is being
                # retried; StackStorm marks a re-requested task running at once
                first = "running"
            self.inflight[aid] = {"x": x, "task": tid, "route": route, "item": None, "state": first,
                                  "delay": t.get("delay") or 0}
            x.state = "running"
            self.call("update_task_state", tid, route, events.ActionExecutionEvent(first))
            self.after_call("started")
            x.rec_idx = self.snap["state"]["tasks"].get("%s__r%s" % (tid, route))
            started = 1
        self.offers.append((self.step, tid, route))
        self.rerun_offers_since += 1
        self.bump("offers")
        return started

    def cleanup_entitled(self):
        """(task, route) pairs that the documented run-on-fail exception allows after `failed`."""
        out = set()
        for c in self.ledger.credits:
            if c.cleanup and not c.void:
                out.add((c.task, c.route))
                if c.route is None:
                    for r in range(0, 64):
                        out.add((c.task, r))
        return out

    def start_items(self, x, t, spec_t, vals, new_exec):
        tid, route = t["id"], t["route"]
        it = x.items
        w = spec_t.get("with") or {}
        if it is None:
            it = x.items = {"n": None, "offered": [], "inflight": set(), "done": {}, "results": None,
                            "stopped": False}
        n = t.get("items_count")
        # expected item list by the harness's evaluation
        try:
            exp_items = lang.eval_value(w["items"], None, vals) if w else None
        except lang.EvalFault:
            exp_items = None
        if exp_items is not None and n != len(exp_items):
            self.report("C12", "all_offered", "items_count %r != len(items) %d" % (n, len(exp_items)))
        if it["n"] is None:
            it["n"] = n
            it["results"] = [None] * (n or 0)
            it["exp_items"] = exp_items
        if it.get("carried") is not None and "reoffer_ok" not in it:
            it["reoffer_ok"] = set(range(it["n"] or 0)) - set(it["carried"])
        try:
            k = w.get("concurrency")
            if k is not None and not isinstance(k, int):
                k = lang.eval_value(k, None, vals)
        except lang.EvalFault:
            k = None
        if k is not None and (not isinstance(k, int) or isinstance(k, bool)):
            k = None
        if k is not None and k <= 0:
            k = 1
        it["k"] = k
        acts = t.get("actions") or []
        if n == 0:
            if it.get("empty_done"):
                self.report("C12", "empty", "empty with-items task offered again")
            it["empty_done"] = True
            x.state = "running"
            self.call("update_task_state", tid, route, events.ActionExecutionEvent("running"))
            self.after_call("started")
            x.rec_idx = self.snap["state"]["tasks"].get("%s__r%s" % (tid, route))
            wfb = self.status
            self.call("update_task_state", tid, route, events.ActionExecutionEvent("succeeded", result=[]))
            self.after_call("completed")
            rec = self.record(tid, route)
            if rec is None or rec.get("status") not in ("succeeded", "retrying"):
                self.report("C12", "empty", "empty with-items task did not complete at once (status %r)"
                            % (rec or {}).get("status"))
            self.on_exec_terminal(x, rec, [], wfb)
            return 0
        if it.get("stopped") or (self.pause_req and self.status in ("pausing", "paused")) or \
                (self.cancel_req and self.status in ("canceling", "canceled")):
            if acts:
                self.report("C12", "no_item_after_stop", "items %r of %s offered after pause/cancel/completion"
                            % ([a.get("item_id") for a in acts], tid))
        last = it["offered"][-1] if it["offered"] else -1
        started = 0
        for a in acts:
            i = a.get("item_id")
            if i in (it.get("carried") or []):
                self.report("C17", "nothing_repeated", "item %r of %s had succeeded before the rerun and is offered again "
                            "although reset_items was not requested" % (i, x.key()))
            if i in it["offered"] and i not in it.get("reoffer_ok", set()):
                kf = None
                tags = []
                b = self.ledger.barriers.get((tid, route))
                if b is not None and b["late"]:
                    kf, tags = "KF-join-partial-late-arrival", ["join_partial", "arrival_after_join_started",
                                                                 "with_items_join"]
                self.report("C12", "item_once", "item %r of %s offered twice in one task execution" % (i, x.key()),
                            tags=tags, kf=kf)
            if i is not None and i <= last and i not in it.get("reoffer_ok", set()):
                self.report("C12", "index_order", "item %r of %s offered after item %r" % (i, x.key(), last))
            if i in it.get("reoffer_ok", set()):
                it["reoffer_ok"].discard(i)
            last = max(last, i if i is not None else last)
            it["offered"].append(i)
            # rendered item input
            if it.get("exp_items") is not None and i is not None and i < len(it["exp_items"]):
                self.check_item_input(x, a, spec_t, vals, it["exp_items"][i])
            aid = "%s#%d.%d.%d@%s" % (tid, x.visit, x.attempt, i, route)
            if aid in self.inflight:
                aid = aid + "+dup%d" % self.step
            first_i = "running"
            if self.o.get("item_first_event") and x.kind != "retry":
                # the item's action execution is requested (queued) first and reports running later
                first_i = self.o.get("first_event") or "running"
            self.inflight[aid] = {"x": x, "task": tid, "route": route, "item": i, "state": first_i, "delay": t.get("delay") or 0}
            it["inflight"].add(i)
            x.state = "running"
            self.call("update_task_state", tid, route, events.TaskItemActionExecutionEvent(i, first_i))
            self.after_call("started")
            x.rec_idx = self.snap["state"]["tasks"].get("%s__r%s" % (tid, route))
            started += 1
        if it["k"] is not None and len(it["inflight"]) > it["k"]:
            self.report("C12", "window", "%d items of %s in flight, concurrency %d" % (len(it["inflight"]), x.key(), it["k"]))
        if started:
            self.bump("probe_items_dispatch")
        return started

    # -- deliver ----------------------------------------------------------------------------
    def op_mark(self, aid, status):
        a = self.inflight.get(aid)
        if a is not None and status == "canceling":
            # an action acknowledges the cancellation before it reports canceled (lifecycle order)
            if not self.cancel_req or a["state"] == "canceling":
                self.bump("op_skipped")
                return False
            if a["state"] != "running":
                a["state"] = "running"
                ev = events.ActionExecutionEvent("running") if a["item"] is None else events.TaskItemActionExecutionEvent(a["item"], "running")
                self.call("update_task_state", a["task"], a["route"], ev)
                self.after_call("mark")
            a["state"] = "canceling"
            ev = events.ActionExecutionEvent("canceling") if a["item"] is None else events.TaskItemActionExecutionEvent(a["item"], "canceling")
            self.call("update_task_state", a["task"], a["route"], ev)
            self.after_call("mark")
            self.bump("fault_act_canceling")
            self.check_state("mark")
            return True
        if a is None or a["state"] == status or a["state"] in ("running", "canceling"):
            self.bump("op_skipped")
            return False
        a["state"] = status
        ev = events.ActionExecutionEvent(status) if a["item"] is None else events.TaskItemActionExecutionEvent(a["item"], status)
        self.call("update_task_state", a["task"], a["route"], ev)
        self.after_call("mark")
        self.check_state("mark")
        return True

    def op_deliver(self, aid, status, result):
        a = self.inflight.get(aid)
        if a is None:
            a = self.pending.get(aid)
            if a is None:
                self.bump("op_skipped")
                return False
        if status == "succeeded" and a["state"] == "canceling":
            # an action that acknowledged the cancellation ends canceled (or abended), never
            # succeeded: the task table defines no such transition, StackStorm does not do it
            self.bump("op_skipped")
            return False
        if status == "canceled" and not self.cancel_req and not self.o.get("solo_cancel"):
            # (H5) an action reports canceled only after a cancel request: not admissible here
            self.bump("op_skipped")
            return False
        x = a["x"]
        tid, route = a["task"], a["route"]
        if self.terminal_seen is not None:
            self.late_after_terminal += 1
            self.bump("fault_late")
        abr = self.o.get("abend_before_running")
        if abr and a["item"] is None and a["state"] in ("requested", "scheduled", "delayed") \
                and status in ("failed", "timeout", "abandoned", "canceled") and Keyed(abr).u("abr", aid) < 0.6:
            # the action never got to run (it failed, expired or was canceled while queued)
            self.bump("fault_abend_before_running")
        elif a["state"] not in ("running", "pending", "canceling"):
            aps = self.o.get("act_pause_seed")
            if a["state"] == "paused" and a["item"] is None and aps and Keyed(aps).u("resuming_first", aid) < 0.5:
                # a paused action is resumed: resuming, then running again, then its outcome
                self.call("update_task_state", tid, route, events.ActionExecutionEvent("resuming"))
                self.after_call("mark")
            a["state"] = "running"
            ev = events.ActionExecutionEvent("running") if a["item"] is None else events.TaskItemActionExecutionEvent(a["item"], "running")
            self.call("update_task_state", tid, route, ev)
            self.after_call("mark")
        wfb = self.status
        nctx_before = len(self.snap["state"]["contexts"]) if self.snap else 0
        if a["item"] is None:
            ev = events.ActionExecutionEvent(status, result=copy.deepcopy(result))
        else:
            it = x.items
            if status in ACTION_TERMINAL:
                it["results"][a["item"]] = copy.deepcopy(result)
            ev = events.TaskItemActionExecutionEvent(a["item"], status, result=copy.deepcopy(result),
                                                     accumulated_result=copy.deepcopy(it["results"]))
        if status in ("pending", "paused"):
            self.inflight.pop(aid, None)
            a["state"] = status
            self.pending[aid] = a
            self.ever_task_paused = True
            aps = self.o.get("act_pause_seed")
            if status == "paused" and aps and Keyed(aps).u("pausing_first", aid) < 0.5:
                # the action acknowledges the pause before it comes to rest
                self.call("update_task_state", tid, route, events.ActionExecutionEvent("pausing"))
                self.after_call("mark")
            self.call("update_task_state", tid, route, ev)
            self.after_call("pending")
            if status == "paused":
                self.bump("fault_act_paused")
            self.check_state("pending")
            return True
        self.inflight.pop(aid, None)
        self.pending.pop(aid, None)
        self.delivered_events[aid] = (tid, route, a["item"], status, copy.deepcopy(result),
                                      copy.deepcopy(x.items["results"]) if a["item"] is not None else None, x)
        self.call("update_task_state", tid, route, ev)
        self.after_call("completed")
        rec = self.record(tid, route)
        if status == "canceled" and not self.cancel_req and self.status in ("canceling", "canceled"):
            # an action was canceled on its own: from here on a cancellation is in progress
            self.cancel_req = True
            self.ledger.cancel_requested = True
            self.canceled_by_action = True
            self.bump("probe_cancellation_started_by_action")
        if wfb not in TERMINAL_WF and self.status in TERMINAL_WF:
            # the execution whose report completed the workflow (the engine flags its record
            # terminal even if the task itself did not complete, e.g. a with-items task that
            # rests paused with items held back when the cancellation completes)
            self.completing_exec = x
        if a["item"] is not None:
            it = x.items
            it["inflight"].discard(a["item"])
            it["done"][a["item"]] = status
            self.check_items_after(x, rec, a, status)
            if rec is not None and rec.get("status") in lang.COMPLETED or (rec is not None and rec.get("status") == "retrying"):
                self.on_exec_terminal(x, rec, copy.deepcopy(it["results"]), wfb, nctx_before)
        else:
            self.on_exec_terminal(x, rec, result, wfb, nctx_before, action_status=status)
        self.finish_if_completed()
        self.check_state("deliver")
        return True

    def op_dup(self, aid):
        """At-least-once bus: re-deliver verbatim a terminal event that was already handled."""
        d = self.delivered_events.get(aid)
        if self.c is None or d is None:
            self.bump("op_skipped")
            return False
        task, route, item, status, result, acc, x = d
        # Admissible only while that execution is still the latest one of (task, route): the
        # conductor identifies an action by (task, route) alone, so after a retry, a loop revisit
        # or a rerun a stale duplicate is indistinguishable from the new execution's own report;
        # telling them apart is the provider's job (it knows action execution ids).
        L = self.ledger
        latest = [e for e in L.execs if e.task == task and e.route == route]
        if not latest or latest[-1] is not x or x.state != "done" or any(
                c.task == task and c.route in (route, None) for c in L.open_credits(task)):
            self.bump("dup_skipped_inadmissible")
            return False
        if item is None:
            ev = events.ActionExecutionEvent(status, result=copy.deepcopy(result))
        else:
            ev = events.TaskItemActionExecutionEvent(item, status, result=copy.deepcopy(result),
                                                     accumulated_result=copy.deepcopy(acc))
        self.bump("fault_dup")
        self.call("update_task_state", task, route, ev)
        self.after_call("dup")
        self.finish_if_completed()
        self.check_state("dup")
        return True

    def record(self, tid, route):
        st = self.snap["state"]
        idx = st["tasks"].get("%s__r%s" % (tid, route))
        if idx is None:
            return None
        return st["sequence"][idx]

    def on_exec_terminal(self, x, rec, result, wfb, nctx_before=None, action_status=None):
        L = self.ledger
        if x.kind == "bogus":
            return
        self.last_done = x
        obs = (rec or {}).get("status")
        spec_t = self.p["tasks"].get(x.task) or {}
        if x.items is not None:
            x.items["stopped"] = True
        if obs == "retrying":
            x.task_status = task_status_of(action_status) if action_status else None
            if x.items is not None:
                x.task_status = "failed" if any(s != "succeeded" for s in x.items["done"].values()) else "succeeded"
            x.result = result
            ra = L.retry_allowed(x, x.task_status, result)
            if ra is None or ra[0] is False:
                why = "no retry policy" if ra is None else "condition false or attempts exhausted (count %r)" % (ra[1],)
                self.report("C13", "bounded" if (ra is not None and ra[1] is not None and x.attempt - 1 >= ra[1]) else
                            "only_while_condition", "%s retried although %s" % (x.key(), why))
            if wfb not in ("running", "resuming", "pausing", "canceling", "requested", "scheduled", "delayed"):
                self.report("C13", "only_while_condition", "%s retried while workflow was %s" % (x.key(), wfb))
            # no transition on retry
            if nctx_before is not None and len(self.snap["state"]["contexts"]) != nctx_before:
                self.report("C13", "no_transition_on_retry", "retried attempt %s published a context" % x.key())
            staged_other = [s for s in self.snap["state"]["staged"] if not (s["id"] == x.task and s["route"] == x.route)]
            if self.prev_staged_ids is not None:
                new_ids = set((s["id"], s["route"]) for s in staged_other) - self.prev_staged_ids
                if new_ids:
                    self.report("C13", "no_transition_on_retry", "retried attempt %s staged successors %r"
                                % (x.key(), sorted(new_ids)))
            if self.status == "failed" and wfb != "failed":
                self.report("C13", "no_transition_on_retry", "workflow failed by an attempt that is retried")
            L.on_retried(x)
            self.bump("probe_retry")
            if any(a["x"] is not x for a in self.inflight.values()):
                self.bump("probe_retry_with_sibling_inflight")
            if self.cancel_req:
                self.bump("probe_retry_under_cancel")
            return
        if obs not in lang.COMPLETED:
            # not completed (e.g. event ignored): nothing to account for
            if x.items is None:
                self.report("C01", "task_status", "%s reported %s but its record is %r" % (x.key(), action_status, obs))
            return
        if x.items is None:
            exp = task_status_of(action_status)
            if exp is not None and obs != exp:
                self.report("C01", "task_status", "%s reported %s but its record says %s" % (x.key(), action_status, obs))
            ra = L.retry_allowed(x, exp, result)
            if ra is not None and ra[0] is True and wfb == "running" and self.status != "failed":
                self.report("C13", "retry_when_due", "%s not retried although attempts remain and the condition holds"
                            % x.key())
            if ra is not None and ra[0] is True and wfb not in ("running", "resuming", "pausing", "canceling"):
                # the attempt reported after the workflow stopped being active: not retried (by
                # design); a later rerun continues from this attempt's failure handling
                self.retry_cut = True
            if ra is not None and ra[0] == "fault" and wfb in ("running", "resuming", "pausing", "canceling",
                                                               "requested", "scheduled", "delayed"):
                # (the retry condition is only evaluated while the workflow is active)
                L.runtime_errors.append((x.xid, "retry"))
        if x.items is not None:
            ra_i = L.retry_allowed(x, obs, result)
            if ra_i is not None and ra_i[0] is True and wfb not in ("running", "resuming", "pausing", "canceling"):
                self.retry_cut = True
        L.on_completed(x, obs, result, wfb)
        self.last_done = x
        if x.items is not None and nctx_before is not None and x.items.get("n"):
            # the task result seen downstream lists the item results in item order
            new_ctx = self.snap["state"]["contexts"][nctx_before:]
            for i, do in x.fired:
                tr = (spec_t.get("next") or [])[i]
                pubs = tr.get("publish") or []
                for k, (var, vnode) in enumerate(pubs):
                    if vnode == ["result"] and not any(v2 == var for v2, _ in pubs[k + 1:]):
                        if not any(var in d and jeq(d[var], result) for d in new_ctx):
                            self.report("C12", "result_in_order", "%s published %s = result() but no stored context "
                                        "carries the item results in item order %s (stored: %s)"
                                        % (x.key(), var, canon(result)[:120],
                                           canon([d.get(var) for d in new_ctx if var in d])[:160]))
        if L.runtime_errors and not self.cancel_req and wfb not in ("canceling", "canceled"):
            self.note_error_processed()
        if (obs == "failed" and not x.remediated) or (x.xid in L.fail_cmd):
            if wfb not in ("canceling", "canceled") and not self.cancel_req:
                self.note_error_processed()
                if x.xid in L.fail_cmd and wfb in ("pausing",):
                    self.bump("probe_pause_while_fail_command")

    def note_error_processed(self):
        self.error_processed_while_not_canceling = True

    def check_items_after(self, x, rec, a, status):
        it = x.items
        obs = (rec or {}).get("status")
        if obs in lang.COMPLETED:
            if it["n"] is not None and len(it["done"]) < it["n"]:
                self.partial_items = True     # completed (failed/canceled) before every item was offered
            if it["inflight"]:
                self.report("C12", "drain_before_complete", "%s completed (%s) while items %r are in flight"
                            % (x.key(), obs, sorted(it["inflight"])))
            allok = it["n"] is not None and len(it["done"]) == it["n"] and all(s == "succeeded" for s in it["done"].values())
            if (obs == "succeeded") != allok:
                self.report("C12", "succeeds_iff_all", "%s is %s with item statuses %r of %r"
                            % (x.key(), obs, it["done"], it["n"]))
        else:
            allok = it["n"] is not None and len(it["done"]) == it["n"] and all(s == "succeeded" for s in it["done"].values())
            if allok and obs != "retrying":
                self.report("C12", "succeeds_iff_all", "all %d items of %s succeeded but the task is %r"
                            % (it["n"], x.key(), obs))

    # -- requests ---------------------------------------------------------------------------
    def op_request(self, status):
        before = self.snap
        wfb = self.status
        n_inflight = len(self.inflight)
        accepted = True
        self.last_request = status
        try:
            self.call("request_workflow_status", status)
        except Rejected as r:
            accepted = False
            self.rejected_requests += 1
            self.bump("fault_bad_request")
        self.after_call("request")
        if not accepted:
            if not jeq(before, self.snap):
                self.report("C04", "reject_no_effect", "rejected request %r in status %s changed the persisted "
                            "state: %s" % (status, wfb, first_diff(before, self.snap)))
            return False
        if status != wfb and self.status == wfb and not ((status == "paused" and wfb == "pausing")
                                                         or (status == "canceled" and wfb == "canceling")):
            # (the two cases above are the documented "still draining" answers)
            self.report("C04", "forbidden_rejected", "request %r in status %s had no effect on the status and was not "
                        "rejected" % (status, wfb))
        if status in ("pausing", "paused"):
            if self.status in ("pausing", "paused"):
                self.pause_req = True
                self.ever_paused = True
                self.bump("fault_pause")
                if n_inflight:
                    self.bump("probe_pause_with_inflight")
                else:
                    self.bump("probe_pause_zero_inflight")
        elif status in ("canceling", "canceled"):
            if self.status in ("canceling", "canceled"):
                self.canceled_by_request = (self.status == "canceled" and wfb != "canceled")
                self.cancel_req = True
                self.ledger.cancel_requested = True
                self.bump("fault_cancel")
                if n_inflight:
                    self.bump("probe_cancel_with_inflight")
        elif status == "failed" and wfb != "failed" and self.status == "failed":
            # the table lets a caller force `failed`; that is an operator decision, not an outcome
            self.forced_failed = True
            self.bump("forced_failed")
        elif status in ("running", "resuming"):
            if wfb in ("paused", "pausing") and self.status not in ("paused", "pausing"):
                self.pause_req = False
                self.bump("fault_resume")
                # work that was held back while pausing / paused and must now be released
                L = self.ledger
                held = sorted(c.task for c in L.open_credits() if not c.void)
                for x in L.execs:
                    it = x.items
                    if it is not None and x.state == "running" and it.get("n") and len(it["offered"]) < it["n"] \
                            and not any(s != "succeeded" for s in it["done"].values()):
                        held.append(x.task)
                self.held_back = len(held)
                self.expect_release = sorted(held) if (wfb == "paused" and self.status in ("running", "resuming")) else None
                if held:
                    self.bump("probe_resume_with_held_tasks")
                for x in self.ledger.execs:
                    if x.items is not None and x.state == "running":
                        x.items["stopped"] = False
        self.finish_if_completed()
        self.check_state("request")
        return True

    def op_rerun(self, reqs):
        before = self.snap
        wfb = self.status
        treqs = None
        known = set((self.snap["state"]["tasks"] or {}).keys()) if self.snap else set()
        unknown = [r for r in (reqs or []) if "%s__r%s" % (r[0], r[1]) not in known]
        if reqs is not None:
            treqs = [orequests.TaskRerunRequest.new(r[0], route=r[1], reset_items=bool(r[2])) for r in reqs]
        try:
            self.call("request_workflow_rerun", task_requests=treqs)
        except Rejected as r:
            self.after_call("rerun")
            if not jeq(before, self.snap):
                self.report("C17", "admission", "rejected rerun changed the persisted state: %s"
                            % first_diff(before, self.snap))
            if wfb in TERMINAL_WF and reqs is None:
                pass
            return False
        self.after_call("rerun")
        if wfb not in lang.COMPLETED:
            self.report("C17", "admission", "rerun accepted while the workflow was %s" % wfb)
        if unknown:
            self.report("C17", "admission", "rerun accepted for task executions that do not exist: %r" % unknown)
        if self.status != "resuming":
            self.report("C17", "resuming", "accepted rerun left the workflow %s" % self.status)
        self.accepted_rerun = True
        self.error_processed_while_not_canceling = False
        self.rerun_selected = self.ledger.on_rerun(reqs, self.snap["state"], before["state"]["sequence"])
        self.check_rerun_touch(before["state"], self.snap["state"])
        self.rerun_from = wfb
        self.cancel_req = False
        self.pause_req = False
        self.ledger.cancel_requested = False
        self.rerun_offers_since = 0
        self.terminal_seen = None
        self.rendered = False
        self.bump("fault_rerun")
        return True

    def check_rerun_touch(self, a, b):
        """C17: a rerun may reopen (drop the terminal flag of) only the requested executions, what
        follows from them, and executions that still have a satisfied transition to continue from;
        an execution that completed elsewhere is left alone."""
        L = self.ledger
        by_rec = L.latest_exec_by_record()
        sel = self.rerun_selected or []
        allowed = set()
        for x in sel:
            allowed.add(x.xid)
            allowed |= L.descendants(x)
        selected_idx = set((b.get("reruns") or [[]])[-1])
        for i, ra in enumerate(a["sequence"]):
            rb = b["sequence"][i]
            if ra.get("term") and not rb.get("term"):
                if i in selected_idx or any(v for v in (ra.get("next") or {}).values()):
                    continue
                x = by_rec.get(i)
                if x is None:
                    # an engine command record: belongs to the execution it was issued from
                    pidx = list((ra.get("prev") or {}).values())
                    x = by_rec.get(pidx[0]) if pidx else None
                    if x is None:
                        continue
                if x.xid in allowed or L.rerun_loose:
                    continue
                self.report("C17", "nothing_repeated", "the rerun reopened record #%d (%s on route %s), which is neither "
                            "requested nor downstream of a requested execution: its terminal flag (and with it its "
                            "contribution to the output) is gone" % (i, ra.get("id"), ra.get("route")))

    def op_restart(self):
        if self.c is None:
            return False
        if self.twin is not None:
            self.roundtrip("twin")
            self.bump("probe_twin_restores")
            return True
        self.roundtrip()
        self.after_call("restart")
        return True

    def op_eval_fault(self, k):
        self.install_seam()
        self.fault_in = int(k)
        return True

    def op_render(self):
        self.finish_if_completed(force=True)
        return True

    # ------------------------------------------------------------------ after every API call
    prev_staged_ids = None

    def after_call(self, tag):
        if self.c is None:
            return
        prev = self.snap
        self.prev_staged_ids = set((s["id"], s["route"]) for s in prev["state"]["staged"]) if prev else None
        if self.twin is not None:
            g0 = (self.c.get_workflow_output(), self.c.get_workflow_status(), len(self.c.errors), len(self.c.log))
        snap = self.c.serialize()
        if self.twin is not None:
            # persisting is a query: it must not change what the live conductor reports, and asking
            # twice gives the same form
            g1 = (self.c.get_workflow_output(), self.c.get_workflow_status(), len(self.c.errors), len(self.c.log))
            snap2 = self.c.serialize()
            if not jeq(g0, g1) or not jeq(snap, snap2):
                self.report("C05", "persist_is_pure", "after %s: serialize() changed the live conductor: %s"
                            % (tag, first_diff(list(g0), list(g1)) if not jeq(g0, g1) else first_diff(snap, snap2)))
        self.snap = snap
        if self.o.get("chain"):
            # insertion order is kept on purpose: "identical persisted state" is byte-wise
            self.chain = hashlib.sha256((self.chain + tag + json.dumps(snap, sort_keys=False, default=str)).encode()).hexdigest()
        st = snap["state"]
        new_status = st["status"]
        if self.twin is not None:
            ts = self.twin.serialize()
            if not jeq(snap, ts):
                self.report("C05", "same_persisted", "after %s: live and restored conductor differ: %s"
                            % (tag, first_diff(snap, ts)))
        if prev is not None:
            self.check_append_only(prev["state"], st, tag)
        # status finality
        if self.terminal_seen is not None and new_status != self.terminal_seen:
            # succeeded -> failed is the one documented exception: the engine's own output-rendering
            # failure and an explicit `failed` request are the same workflow event
            ok = (self.terminal_seen == "succeeded" and new_status == "failed" and
                  (tag == "render" or (tag == "request" and self.last_request == "failed")))
            if not ok and not (tag == "rerun"):
                self.report("C04", "status_final", "status changed from %s to %s after %s"
                            % (self.terminal_seen, new_status, tag))
            if new_status in TERMINAL_WF:
                self.terminal_seen = new_status
        if new_status != self.status:
            if new_status in ("pausing", "paused", "canceling", "canceled"):
                # with-items tasks whose items are all still queued when a pause/cancel begins
                for rec in st["sequence"]:
                    if rec.get("status") in ("requested", "scheduled", "delayed") and \
                            (self.p["tasks"].get(rec.get("id")) or {}).get("with") is not None:
                        self.queued_items_tasks.add((rec.get("id"), rec.get("route")))
            self.status_trace.append(new_status)
            if new_status == "failed" and self.status == "pausing":
                self.failed_while_pausing = True
        self.status = new_status
        if new_status in TERMINAL_WF and self.terminal_seen is None and tag != "rerun":
            self.terminal_seen = new_status
        if self.fault_fired and self.fault_seen_at_status is None:
            self.fault_seen_at_status = new_status
        # abstract state for reach
        ts = sorted((t.get("status") or "null") for t in st["sequence"])
        key = (new_status, tuple(sorted(set(ts))), len(st["staged"]) > 0, min(len(self.inflight), 3))
        self.abstract_states.add(key)

    def check_append_only(self, a, b, tag):
        """C18 on consecutive persisted states."""
        if len(b["sequence"]) < len(a["sequence"]):
            self.report("C18", "prefix", "sequence shrank after %s" % tag)
            return
        if len(b["contexts"]) < len(a["contexts"]) or len(b["routes"]) < len(a["routes"]):
            self.report("C18", "prefix", "contexts/routes shrank after %s" % tag)
            return
        for i, cx in enumerate(a["contexts"]):
            if cx != b["contexts"][i]:
                self.report("C18", "prefix", "stored context #%d changed after %s: %s" % (i, tag, first_diff(cx, b["contexts"][i])))
        for i, r in enumerate(a["routes"]):
            if r != b["routes"][i]:
                self.report("C18", "prefix", "route #%d changed after %s" % (i, tag))
        for i, ra in enumerate(a["sequence"]):
            rb = b["sequence"][i]
            if ra.get("id") != rb.get("id") or ra.get("route") != rb.get("route"):
                self.report("C18", "frozen_at_start", "record #%d identity changed after %s" % (i, tag))
            if "status" in ra:
                if ra["ctxs"]["in"] != rb["ctxs"]["in"] or ra["prev"] != rb["prev"]:
                    kf, tags = self.classify_record_mutation(ra, rb)
                    self.report("C18", "frozen_at_start", "record #%d (%s) ctxs.in/prev changed after %s: %r -> %r"
                                % (i, ra.get("id"), tag, (ra["ctxs"]["in"], ra["prev"]), (rb["ctxs"]["in"], rb["prev"])),
                                tags=tags, kf=kf)
                sa, sb = ra.get("status"), rb.get("status")
                if sa in lang.COMPLETED and tag != "rerun":
                    decided = bool(ra.get("next")) or ra.get("term")
                    if sb != sa and not (sb == "retrying"):
                        self.report("C18", "frozen_when_decided", "record #%d (%s) status %s -> %s after %s"
                                    % (i, ra.get("id"), sa, sb, tag))
                    if sb == "retrying" and ra.get("next"):
                        self.report("C18", "frozen_when_decided", "record #%d reopened after transitions were decided" % i)
                    if ra.get("next") and ra["next"] != rb.get("next"):
                        self.report("C18", "frozen_when_decided", "record #%d (%s) decisions changed after %s: %r -> %r"
                                    % (i, ra.get("id"), tag, ra["next"], rb.get("next")))
                    if ra.get("next") and ra["ctxs"].get("out") != rb["ctxs"].get("out"):
                        self.report("C18", "frozen_when_decided", "record #%d ctxs.out changed after %s" % (i, tag))

    def classify_record_mutation(self, ra, rb):
        return None, []

    # ------------------------------------------------------------------ handler-level state checks
    def finish_if_completed(self, force=False):
        if self.c is None:
            return
        if self.status in lang.COMPLETED:
            # (H7) the engine renders the output whenever a handler leaves the workflow completed
            first = not self.rendered
            self.rendered = True
            before = self.snap.get("output") if self.snap else None
            st_before = self.status
            self.call("render_workflow_output")
            self.after_call("render")
            if first or force:
                self.check_output()
            elif before and st_before == self.status and not jeq(before, self.snap.get("output")):
                # once reported with a terminal status the output is part of that final outcome
                self.report("C04", "output_final", "the output reported with status %s changed afterwards: %s -> %s"
                            % (self.status, canon(before)[:150], canon(self.snap.get("output"))[:150]))

    def check_state(self, tag):
        """Invariants that hold at every point where the harness bookkeeping is consistent."""
        L = self.ledger
        st = self.status
        nin = len(self.inflight)
        if st == "succeeded":
            if nin:
                b_late = [b for b in L.barriers.values() if b["late"]]
                self.report("C02", "succeeded_clean", "workflow succeeded with %d action(s) in flight: %r"
                            % (nin, sorted(self.inflight)[:4]))
            if self.pending:
                self.report("C02", "succeeded_clean", "workflow succeeded with pending actions")
            oc = [c for c in L.outstanding() if not c.cleanup]
            if oc:
                self.report("C02", "succeeded_clean", "workflow succeeded with work outstanding: %r" % oc[:4])
                self.report("C01", "nothing_lost", "workflow succeeded but %r never ran" % oc[:4])
            ub = L.unsatisfied_barriers()
            if ub:
                kf, tags = None, []
                msg = "workflow succeeded with a partially satisfied join that can no longer run: %r" % [
                    (b["join"], b["route"], b["srcs"]) for b in ub]
                self.report("C07", "unreachable_fails", msg, tags=tags, kf=kf)
                self.report("C02", "succeeded_clean", msg, tags=tags, kf=kf)
            if L.unhandled:
                self.report("C02", "succeeded_clean", "workflow succeeded although executions %r failed unhandled"
                            % [L.execs[i].key() for i in L.unhandled])
            if L.fail_cmd:
                kf, tags = None, []
                self.report("C02", "succeeded_clean", "workflow succeeded although a fail command ran (after %r)"
                            % [L.execs[i].key() for i in L.fail_cmd], tags=tags, kf=kf)
            if L.runtime_errors:
                self.report("C02", "succeeded_clean", "workflow succeeded although a runtime error occurred: %r"
                            % L.runtime_errors[:3])
            live = [x.key() for x in L.execs if x.state in ("running", "offered")]
            if live and not nin:
                self.report("C02", "succeeded_clean", "workflow succeeded with executions not completed: %r" % live[:4])
        if st in ("paused", "canceled") and nin:
            self.report("C02", "rest_no_inflight", "workflow %s with %d action(s) in flight: %r" % (st, nin, sorted(self.inflight)[:4]))
            if st == "canceled":
                self.report("C10", "canceled_when_drained", "workflow canceled with %d action(s) in flight" % nin)
            else:
                self.report("C09", "paused_when_drained", "workflow paused with %d action(s) in flight" % nin)
        if st in ("pausing", "canceling") and not nin:
            kf, tags = self.kf_rerun_after_cancel()
            if not kf:
                kf, tags = self.kf_queued_items_task()
            if not kf:
                kf, tags = self.kf_pending_items()
            if not kf:
                kf, tags = self.kf_resumed_paused_items()
            if not kf:
                kf, tags = self.kf_queued_items_task()
            if not kf:
                kf, tags = self.kf_action_cancel_items()
            self.report("C02", "ing_has_inflight", "workflow %s with no action in flight" % st, tags=tags, kf=kf)
            if st == "canceling":
                self.report("C10", "canceled_when_drained", "workflow still canceling after the last action reported",
                            tags=tags, kf=kf)
            else:
                self.report("C09", "paused_when_drained", "workflow still pausing after the last action reported",
                            tags=tags, kf=kf)
        if self.pause_req and st in ("running", "resuming", "requested", "scheduled", "delayed") and not self.cancel_req:
            # an accepted pause stays in effect until the operator resumes (or the workflow ends)
            self.report("C09", "pause_holds", "a pause request was accepted and not resumed, yet the workflow reports %s" % st)
        if self.cancel_req and st == "succeeded":
            self.report("C10", "never_succeeded", "canceled workflow ended succeeded")
        if self.fault_fired and self.fault_checked is False and tag in ("deliver", "dispatch", "start", "request", "dup"):
            self.check_fault_effect()

    fault_checked = False
    last_request = None
    expect_release = None
    terminal_at_offer = None
    retry_cut = False
    last_done = None
    completing_exec = None
    canceled_by_action = False
    ever_task_paused = False
    canceled_by_request = False
    partial_items = False
    kf_items_loop = None
    forced_failed = False
    held_back = 0
    failed_while_pausing = False
    chain = ""

    def check_fault_effect(self):
        """C11 recorded / fails for an injected k-th evaluation fault."""
        self.fault_checked = True
        errs = self.snap["errors"]
        if not any("injected evaluation fault" in (e.get("message") or "") for e in errs):
            self.report("C11", "recorded", "injected evaluation fault (in %s) left no error entry" % self.fault_where)
        if self.status not in ("failed", "canceled", "canceling"):
            self.report("C11", "fails", "injected evaluation fault (in %s) but workflow is %s" % (self.fault_where, self.status))

    def check_quiescent(self):
        """Called by the driver when nothing is in flight, no timer is pending and a fresh
        dispatch returned nothing."""
        st = self.status
        self.resting_points.append(st)
        if st not in RESTING_WF:
            kf, tags = self.classify_stuck()
            self.report("C03", "quiescent_rest", "nothing in flight, nothing on offer, workflow is %s" % st,
                        tags=tags, kf=kf)
            if self.accepted_rerun:
                self.report("C17", "not_stuck", "after an accepted rerun: nothing to do, workflow is %s" % st,
                            tags=tags, kf=kf)
            ub = self.ledger.unsatisfied_barriers()
            if kf is None and ub and st in ("running", "resuming") and not self.cancel_req and not self.ledger.runtime_errors \
                    and not [c for c in self.ledger.outstanding() if not c.cleanup]:
                # "... the workflow fails with an unreachable-join error instead of succeeding or hanging"
                self.report("C07", "unreachable_fails", "workflow rests in %s with nothing to do while join(s) %r can no "
                            "longer be satisfied" % (st, [(b["join"], b["route"], b["srcs"]) for b in ub]))
            if kf is None and st in ("running", "resuming") and not self.cancel_req and not self.pause_req \
                    and not self.ever_paused and not self.ledger.runtime_errors:
                # "all n are offered when nothing fails and no pause or cancel intervenes"
                for x in self.ledger.execs:
                    it = x.items
                    if it is not None and x.state in ("offered", "running") and it.get("n") and not it["inflight"] \
                            and len(set(it["offered"])) < it["n"] and all(v == "succeeded" for v in it["done"].values()):
                        self.report("C12", "all_offered", "%s has offered %d of %d items, nothing failed, nothing is in "
                                    "flight and nothing is offered" % (x.key(), len(set(it["offered"])), it["n"]))
                for c in self.ledger.open_credits():
                    if (self.p["tasks"].get(c.task) or {}).get("with") is not None and not c.cleanup:
                        self.report("C12", "all_offered", "with-items task %s is due (status %s) but none of its items is "
                                    "offered" % (c.task, st))
        if st == "paused":
            tstat = [t.get("status") for t in self.snap["state"]["sequence"]]
            cause = self.pause_req or self.ever_paused or self.ever_task_paused or bool(self.pending) or any(x in ("paused", "pending", "pausing") for x in tstat)
            if not cause:
                self.report("C03", "paused_has_cause", "workflow paused without a pause request or pending task")
        L = self.ledger
        if st in ("succeeded", "failed", "canceled", "paused"):
            ub = L.unsatisfied_barriers()
            oc = [c for c in L.outstanding() if not c.cleanup]
            if ub and not oc and st != "failed" and not self.cancel_req and st != "paused" and st != "succeeded":
                pass

    rerun_from = None
    rerun_selected = None

    def kf_rerun_after_cancel(self):
        """Precise signature: a canceled workflow was rerun and, without any new cancel request,
        turns canceling/canceled again because the records of the originally canceled tasks are
        still the latest ones of their tasks."""
        if self.accepted_rerun and self.rerun_from == "canceled" and not self.cancel_req \
                and self.status in ("canceling", "canceled") \
                and any(t.get("status") == "canceled" for t in self.snap["state"]["sequence"]):
            return "KF-rerun-after-cancel-recancels", ["rerun_after_cancel"]
        return None, []

    def kf_pending_items(self):
        """Precise signature: the workflow is pausing because a task reported pending (no pause
        request reached the tasks), nothing is in flight, and a with-items task that still has
        items to offer sits in `running`: it is counted as active although it cannot progress."""
        if self.status == "pausing" and not self.inflight and self.pending and not self.pause_req:
            for x in self.ledger.execs:
                it = x.items
                if it is not None and x.state == "running" and not it["inflight"] and it.get("n") \
                        and len(it["offered"]) < it["n"]:
                    return "KF-pending-task-leaves-items-task-running", ["pending_with_items_window"]
        return None, []

    def kf_resumed_paused_items(self):
        """Precise signature: the workflow was resumed (no pause request is outstanding) while a
        with-items task with items left rests in `paused`; a resume request does not reach paused
        tasks, so the next task completion sees a paused task and turns the workflow pausing again,
        where the remaining items are never offered."""
        if self.ever_paused and not self.pause_req and self.status in ("pausing", "paused") and not self.inflight:
            for rec in self.snap["state"]["sequence"]:
                if rec.get("status") == "paused" and (self.p["tasks"].get(rec.get("id")) or {}).get("with"):
                    return "KF-resume-leaves-items-task-paused", ["resume_with_paused_items_task"]
            # variant: the paused task was woken by its next items after the workflow had turned
            # pausing again; it runs them, is never told, and keeps items that are not offered
            for x in self.ledger.execs:
                it = x.items
                if it is not None and x.state == "running" and not it["inflight"] and it.get("n") \
                        and len(set(it["offered"])) < it["n"]:
                    return "KF-resume-leaves-items-task-paused", ["resume_with_paused_items_task"]
        return None, []

    def kf_queued_items_task(self):
        """Precise signature: a pause or cancel began while the items of a with-items task were all
        still queued (task status requested/scheduled/delayed: those rows of the task table take no
        workflow events, so the task is never told); nothing is in flight any more, the task sits in
        `running` with items left that are not offered while pausing/canceling."""
        if self.status in ("pausing", "canceling") and not self.inflight and self.queued_items_tasks:
            for x in self.ledger.execs:
                it = x.items
                if it is not None and x.state == "running" and not it["inflight"] and it.get("n") \
                        and len(set(it["offered"])) < it["n"] and (x.task, x.route) in self.queued_items_tasks:
                    return "KF-queued-items-task-not-told-of-pause-or-cancel", ["items_queued_when_pause_or_cancel_began"]
        return None, []

    def kf_action_cancel_items(self):
        """Precise signature: the workflow is canceling because an action was canceled on its own
        (no cancel request reached the tasks), nothing is in flight, and a with-items task that
        still has items to offer sits in `running`: it is counted as active, but items are not
        offered while canceling, so it can never complete."""
        if self.status == "canceling" and not self.inflight and self.canceled_by_action:
            for x in self.ledger.execs:
                it = x.items
                if it is not None and x.state == "running" and not it["inflight"] and it.get("n") \
                        and len(set(it["offered"])) < it["n"]:
                    return "KF-action-canceled-leaves-items-task-running", ["action_canceled_with_items_window"]
        return None, []

    def classify_stuck(self):
        kf, tags = self.kf_rerun_after_cancel()
        if kf:
            return kf, tags
        kf, tags = self.kf_queued_items_task()
        if kf:
            return kf, tags
        kf, tags = self.kf_action_cancel_items()
        if kf:
            return kf, tags
        kf, tags = self.kf_queued_items_task()
        if kf:
            return kf, tags
        kf, tags = self.kf_pending_items()
        if kf:
            return kf, tags
        kf, tags = self.kf_resumed_paused_items()
        if kf:
            return kf, tags
        if self.accepted_rerun and self.status in ("resuming", "running") and self.rerun_offers_since == 0 and not self.inflight:
            # precise signature: a rerun request was accepted although there is no execution to
            # re-run and nothing to continue; the workflow is left `resuming` with nothing to do
            return "KF-rerun-accepted-nothing-to-do", ["rerun_default_no_candidate"]
        return None, []

    rerun_offers_since = 0

    def check_final(self):
        """End of run (after settle)."""
        L = self.ledger
        st = self.status
        self.check_data_fault()
        self.check_durable()
        if self.error_processed_while_not_canceling and st != "failed" and not (self.cancel_req and st in ("canceled", "canceling")):
            kf, tags = None, []
            self.report("C02", "failure_ends_failed", "an unhandled failure / fail command / runtime error was processed "
                        "but the workflow ended %s" % st, tags=tags, kf=kf)
        if self.cancel_req and st in TERMINAL_WF:
            if st == "succeeded":
                self.report("C10", "never_succeeded", "canceled workflow ended succeeded")
            if st == "failed" and not L.runtime_errors and not self.fault_fired and not self.failed_before_cancel \
                    and not self.forced_failed:
                kf, tags = None, []
                self.report("C10", "not_failed_by_cancel", "cancellation ended in failed: %r"
                            % [e.get("message") for e in self.snap["errors"]][:3], tags=tags, kf=kf)
        if st == "succeeded" and not L.runtime_errors:
            ub = L.unsatisfied_barriers()
            if ub:
                self.report("C07", "unreachable_fails", "ended succeeded with unreachable join(s) %r"
                            % [(b["join"], b["route"]) for b in ub])
        if st in ("succeeded",) :
            pass
        # a task listed beside `fail` in a transition that fired is the documented clean-up task: it
        # is still handed out although the workflow failed
        if st == "failed" and not self.cancel_req and not self.inflight and not self.accepted_rerun \
                and not self.forced_failed and not L.runtime_errors and not self.fault_fired and not self.o.get("data_fault"):
            lost = [c for c in L.open_credits() if getattr(c, "beside_fail", False) and c.kind == "transition"]
            if lost:
                self.report("C01", "cleanup_runs", "the transition of %s listing %r beside `fail` fired, but the task was "
                            "never offered" % ([L.execs[p_].key() for p_ in lost[0].parents], lost[0].task))
        # an unreachable-join error must name a join whose barrier really is partially satisfied
        # (only when that error is the sole cause of the failure: a workflow that already failed for
        # another reason may log such an entry for a join whose last inbound task is still running,
        # which changes nothing the statement speaks about)
        if st == "failed" and not self.inflight and not self.accepted_rerun and not L.unhandled and not L.fail_cmd \
                and not L.runtime_errors and not self.fault_fired and not self.forced_failed and not self.cancel_req \
                and not self.o.get("data_fault"):
            for e in self.snap["errors"]:
                if "UnreachableJoinError" in (e.get("message") or "") and e.get("task_id") in L.req:
                    b = L.barriers.get((e.get("task_id"), e.get("route")))
                    if b is not None and b["fired"]:
                        self.report("C07", "unreachable_only_if_unsatisfied", "workflow failed with %r although the "
                                    "barrier of %s@%s was satisfied by %r" % (e.get("message"), e.get("task_id"),
                                                                             e.get("route"), b["srcs"]))
        # an unreachable join at the end must have failed the workflow with an error naming it
        ub = L.unsatisfied_barriers()
        oc = [c for c in L.outstanding() if not c.cleanup]
        if ub and not self.cancel_req and st in TERMINAL_WF and not L.unhandled and not L.fail_cmd and not L.runtime_errors \
                and not self.fault_fired and not self.inflight:
            if st != "failed":
                pass
            else:
                names = [b["join"] for b in ub]
                errs = [e for e in self.snap["errors"] if "UnreachableJoinError" in (e.get("message") or "")]
                if not any(e.get("task_id") in names for e in errs):
                    self.report("C07", "unreachable_fails", "workflow failed at an unreachable join but no error "
                                "entry names %r" % names)

    failed_before_cancel = False

    MARKERS = ("nosuchvar_zz", "nosuchkey_zz", "1 + 'a'", "nosuchfunc_zz")

    def check_data_fault(self):
        """C11 (a): an expression of the definition that fails on the delivered data."""
        f = self.p.get("fault_info")
        if not f or self.snap is None:
            return
        L = self.ledger
        pos, T = f["pos"], f["task"]
        errs = self.snap["errors"]
        hits = [e for e in errs if any(m in (e.get("message") or "") for m in self.MARKERS)]
        if f.get("kind") == "wrong_value":
            hits = [e for e in errs if e.get("task_id") == T and not (e.get("message") or "").startswith("Execution failed")]
        expected = False
        if pos in ("vars", "wf_input"):
            expected = True
        elif pos == "output":
            expected = self.rendered and self.status in lang.COMPLETED
        elif pos in ("when", "publish"):
            expected = any(x is not None and L.execs[x].task == T and w.startswith(pos) for x, w in L.runtime_errors)
        elif pos == "retry_when":
            expected = any(x is not None and L.execs[x].task == T and w == "retry" for x, w in L.runtime_errors)
        elif pos in ("retry_count", "retry_delay"):
            expected = any(x.task == T and x.kind != "bogus" for x in L.execs)
        else:
            expected = T in self.render_attempted
            tw = (self.p["tasks"].get(T) or {}).get("with")
            if expected and tw and pos in ("input", "action") and tw["items"][0] == "ctx":
                # the action and input of a with-items task are rendered per item: never for []
                expected = bool((self.render_ctx.get(T) or L.root.values()).get(tw["items"][1]))
        if expected:
            self.bump("probe_data_fault_fired")
            if pos not in ("vars", "wf_input", "output"):
                self.bump("probe_data_fault_runtime")
            if not hits:
                self.report("C11", "recorded", "the failing expression at %s of %s left no error entry (errors: %r)"
                            % (pos, T, [e.get("message", "")[:60] for e in errs][:4]))
            elif T is not None and not any(e.get("task_id") == T for e in hits):
                self.report("C11", "recorded", "error entry for the failing expression at %s does not name task %s: %r"
                            % (pos, T, hits[:2]))
            elif pos in ("when", "publish") and not any(e.get("task_transition_id") for e in hits):
                self.report("C11", "recorded", "error entry for the failing %s of %s names no transition: %r" % (pos, T, hits[:2]))
            elif pos == "when" and f.get("tr2") is not None:
                trs = self.p["tasks"][T]["next"]
                pairs = set((i, tgt) for i in (f["tr"], f["tr2"]) for tgt in (trs[i].get("do") or []) if tgt != "retry")
                named = set(e.get("task_transition_id") for e in hits if e.get("task_transition_id"))
                fired_for = [x for x, w_ in L.runtime_errors if x is not None and L.execs[x].task == T]
                if len(set(fired_for)) == 1 and len(named) < len(pairs):
                    self.report("C11", "recorded", "two transitions of %s failed to evaluate (%d edges) but the error entries "
                                "name only %r" % (T, len(pairs), sorted(named)))
            ok_status = ("failed", "canceled") if (self.cancel_req or self.status == "canceled") else ("failed",)
            if self.status not in ok_status and not self.inflight:
                self.report("C11", "fails", "expression at %s of %s failed but the workflow is %s" % (pos, T, self.status))
        elif hits and self.status not in ("failed", "canceled", "canceling"):
            self.report("C11", "fails", "an expression error was recorded but the workflow is %s" % self.status)

    # ------------------------------------------------------------------ C06 checks
    def check_ctx(self, x, vals, ref_at_offer=None):
        ref = ref_at_offer or x.ref
        exp = ref.values()
        if jeq(exp, vals):
            return
        diffs = [(k, exp.get(k, "<absent>"), vals.get(k, "<absent>")) for k in sorted(set(exp) | set(vals))
                 if not jeq(exp.get(k, "<absent>"), vals.get(k, "<absent>"))]
        # precise recognition of the known merge finding: the observed context is exactly what the
        # as-built index-list merge yields, and differs from the causal expectation
        kf, tags = None, []
        if self.kf_items_loop:
            self.report("C06", "ctx_exact", "%s (with-items, revisited in a loop after a failed visit) rendered with a "
                        "stale merged context: %r" % (x.key(), diffs[:3]), tags=["failed_with_items_revisited"],
                        kf=self.kf_items_loop)
            return
        asb = self.ledger.asbuilt_values(ref.idxs)
        f = self.p.get("_features") or set()
        branches = getattr(getattr(x, "credit", None), "branches", None) or []
        if jeq(asb, vals) and len(x.parents) > 1:
            kf, tags = "KF-stale-inherited-value-at-merge", ["stale_inherited_value_at_merge"]
        elif len(branches) > 1 and all(stale_explains(d[0], d[2], ref, branches) for d in diffs):
            kf, tags = "KF-stale-inherited-value-at-merge", ["stale_inherited_value_at_merge"]
        elif "dict_republish" in f and any(isinstance(d[1], dict) or isinstance(d[2], dict) for d in diffs):
            kf, tags = "KF-dict-republish-deep-merge", ["dict_republish"]
        src_items = False
        self.report("C06", "ctx_exact", "%s rendered with a context that differs from its causal ancestors' "
                    "publishes: %r (var, expected, observed)" % (x.key(), diffs[:4]), tags=tags, kf=kf)

    def check_input(self, x, t, vals):
        spec_t = self.p["tasks"].get(x.task) or {}
        if spec_t.get("with") is not None:
            return
        acts = t.get("actions") or []
        if not acts:
            return
        try:
            exp = dict((k, lang.eval_value(v, None, vals)) for k, v in (spec_t.get("input") or {}).items())
        except lang.EvalFault:
            return
        got = acts[0].get("input") or {}
        if not jeq(exp, got):
            self.report("C06", "input_rendered", "%s action input %s, expected %s" % (x.key(), canon(got)[:200], canon(exp)[:200]))

    def check_item_input(self, x, a, spec_t, vals, item):
        w = spec_t["with"]
        it = {w["key"]: item} if w.get("key") else item
        try:
            exp = dict((k, lang.eval_value(v, None, vals, it)) for k, v in (spec_t.get("input") or {}).items())
        except lang.EvalFault:
            return
        got = a.get("input") or {}
        if not jeq(exp, got):
            self.report("C12", "index_order", "item %r of %s rendered with input %s, expected %s (item order)"
                        % (a.get("item_id"), x.key(), canon(got)[:200], canon(exp)[:200]))

    def check_delay(self, x, t, spec_t, vals):
        got = t.get("delay")
        if x.kind == "retry":
            c = getattr(x, "credit", None)
            exp = (c.delay if c is not None else 0) or 0
            if (got or 0) != exp:
                self.report("C13", "delay_carried", "retry of %s offered with delay %r, configured %r" % (x.key(), got, exp))
            return
        d = spec_t.get("delay")
        if d is None:
            exp = None
        else:
            try:
                exp = d if isinstance(d, int) else lang.eval_value(d, None, vals)
            except lang.EvalFault:
                return
        if (got or None) != (exp or None):
            if self.kf_items_loop:
                self.report("C13", "delay_carried", "%s (with-items, revisited in a loop after a failed visit) offered "
                            "with delay %r of the previous visit's retry, definition says %r" % (x.key(), got, exp),
                            tags=["failed_with_items_revisited"], kf=self.kf_items_loop)
                return
            self.report("C13", "delay_carried", "%s offered with delay %r, definition says %r" % (x.key(), got, exp))

    def check_output(self):
        """C06.output_rendered / C10.output_rendered on the rendered output."""
        out = self.snap.get("output")
        L = self.ledger
        spec_out = self.p.get("output") or []
        failed_plain = (self.status == "failed" and not L.runtime_errors and not self.fault_fired
                        and not self.o.get("data_fault") and not self.forced_failed and not self.cancel_req
                        and not self.p.get("fault_info"))
        if (self.status == "succeeded" or failed_plain) and not self.accepted_rerun:
            pairs = L.leaves(with_seq=True)
            ld = self.completing_exec or self.last_done
            if failed_plain and ld is not None and ld.ref is not None and not any(r is ld.ref for _, r in pairs):
                # the execution whose report completed the workflow is terminal whatever it decided
                pairs = sorted(pairs + [(getattr(ld, "seq", 10 ** 9), ld.ref)], key=lambda e: e[0])
            leaves = [r for _, r in pairs]
            if not leaves:
                return
            self.bump("probe_output_checked_%s" % self.status)
            fwd = None
            for r in leaves:
                fwd = r if fwd is None else L.merge_ctx(fwd, r)
            bwd = None
            for r in reversed(leaves):
                bwd = r if bwd is None else L.merge_ctx(bwd, r)
            fv, bv = fwd.values(), bwd.values()
            rolling = dict(fv)
            racy_names = set()
            for name, vnode in spec_out:
                rd = lang.reads(vnode)
                racy = any((v in racy_names or v in fwd.racy or v in bwd.racy or not jeq(fv.get(v), bv.get(v))) for v in rd)
                if racy:
                    racy_names.add(name)      # a later output that reads this one is order-decided too
                else:
                    racy_names.discard(name)
                try:
                    exp = lang.eval_value(vnode, None, rolling)
                except lang.EvalFault:
                    return
                rolling[name] = exp
                if racy:
                    self.bump("output_var_racy_skipped")
                    continue
                got = (out or {}).get(name, "<absent>")
                if not jeq(exp, got):
                    kf, tags = None, []
                    f = self.p.get("_features") or set()
                    if "dict_republish" in f and (isinstance(exp, dict) or isinstance(got, dict)):
                        kf, tags = "KF-dict-republish-deep-merge", ["dict_republish"]
                    elif vnode[0] == "ctx" and len(leaves) > 1 and stale_explains(vnode[1], got, fwd, leaves):
                        kf, tags = "KF-stale-inherited-value-at-merge", ["stale_inherited_value_at_merge",
                                                                          "terminal_merge"]
                    self.report("C06", "output_rendered", "output %s = %s, expected %s from the terminal contexts"
                                % (name, canon(got)[:120], canon(exp)[:120]), tags=tags, kf=kf)
        if self.cancel_req and self.status == "canceled" and not self.accepted_rerun and self.last_done is not None:
            # "still renders its output from what was published": the contexts of the executions
            # after which nothing ran, plus the one whose report completed the cancellation
            pairs = L.leaves(with_seq=True)
            at_rest = self.canceled_by_request
            if not at_rest or not pairs:
                # (when the request itself completed the cancellation no task event followed it,
                # and the engine flags executions terminal only on task events)
                ld = self.completing_exec or self.last_done
                if ld.ref is not None and not any(r is ld.ref for _, r in pairs):
                    pairs = sorted(pairs + [(getattr(ld, "seq", 10 ** 9), ld.ref)], key=lambda e: e[0])
            refs = [r for _, r in pairs]
            fwd = None
            for r in refs:
                fwd = r if fwd is None else L.merge_ctx(fwd, r)
            bwd = None
            for r in reversed(refs):
                bwd = r if bwd is None else L.merge_ctx(bwd, r)
            fv, bv = fwd.values(), bwd.values()
            rolling_c = dict(fv)
            racy_names = set()
            for name, vnode in spec_out:
                try:
                    exp_c = lang.eval_value(vnode, None, rolling_c)
                except lang.EvalFault:
                    break
                rolling_c[name] = exp_c
                if vnode[0] != "ctx":
                    racy_names.discard(name)
                    continue
                v = vnode[1]
                if v in racy_names or v in fwd.racy or v in bwd.racy or not jeq(fv.get(v), bv.get(v)):
                    racy_names.add(name)
                    continue
                racy_names.discard(name)
                got = (out or {}).get(name, "<absent>")
                if not jeq(exp_c, got):
                    f = self.p.get("_features") or set()
                    kf, tags = None, []
                    if "dict_republish" in f and (isinstance(got, dict) or isinstance(exp_c, dict)):
                        kf, tags = "KF-dict-republish-deep-merge", ["dict_republish"]
                    elif len(refs) > 1 and stale_explains(v, got, fwd, refs):
                        kf, tags = "KF-stale-inherited-value-at-merge", ["stale_inherited_value_at_merge", "terminal_merge"]
                    elif at_rest and not any(t.get("term") for t in self.snap["state"]["sequence"]):
                        # precise signature: the cancel request found nothing in flight and turned the
                        # workflow canceled by itself; no task event ran after it, so no execution is
                        # flagged terminal and the output falls back to the initial context
                        kf, tags = "KF-cancel-at-rest-output-from-initial-context", ["cancel_with_nothing_in_flight"]
                    self.report("C10", "output_rendered", "canceled workflow output %s = %s, but %s was published on the way "
                                "to the executions after which nothing ran" % (name, canon(got)[:100], canon(exp_c)[:100]),
                                tags=tags, kf=kf)
        if self.cancel_req and self.status == "canceled":
            written = {}
            for d in L.deltas:
                for k, w in d.items():
                    written.setdefault(k, []).append(w.value)
            earlier = set()
            for name, vnode in spec_out:
                shadowed = vnode[0] == "ctx" and vnode[1] in earlier      # reads an earlier output entry
                earlier.add(name)
                if vnode[0] == "ctx" and not shadowed:
                    got = (out or {}).get(name, "<absent>")
                    if not any(jeq(got, v) for v in written.get(vnode[1], [])):
                        f = self.p.get("_features") or set()
                        if "dict_republish" in f and isinstance(got, dict):
                            self.report("C10", "output_rendered", "canceled workflow output %s is a deep merge of "
                                        "several dict values written to %s" % (name, vnode[1]), tags=["dict_republish"],
                                        kf="KF-dict-republish-deep-merge")
                            continue
                        self.report("C10", "output_rendered", "canceled workflow output %s = %s is none of the values "
                                    "written to %s" % (name, canon(got)[:100], vnode[1]))


def stale_explains(var, observed, merged, branches):
    """Precise signature of the known merge finding for one variable: the observed value is an
    *older* write of the same variable -- one that the lineage of the expected value had already
    seen -- and one of the merged branches still carried it as a merely inherited value."""
    m = merged.vals.get(var)
    seen_expected = False
    for br in branches:                      # in arrival (merge) order
        w = br.vals.get(var)
        if w is None:
            continue
        if m is not None and w.wid == m.wid:
            seen_expected = True
            continue
        # the finding's mechanism: the branch with the merely inherited older value is merged
        # *after* a branch that carried the newer one, and re-applies the older delta
        if seen_expected and jeq(w.value, observed) and w.wid in merged.hist:
            return True
    return False


def _dedupe_terminal_ctx(state):
    """The conductor's own terminal merge, minus the re-application of deltas that were already
    applied (used only to recognise the known merge finding precisely)."""
    order = []
    for r in state["sequence"]:
        if r.get("term"):
            for i in r["ctxs"]["in"]:
                if i not in order:
                    order.append(i)
    ctx = {}
    for i in order:
        ctx.update(state["contexts"][i])
    return ctx


def _terminal_merge_without_reapplication(self, name, spec_out, exp):
    ctx = _dedupe_terminal_ctx(self.snap["state"])
    rolling = dict((k, v) for k, v in ctx.items() if not k.startswith("__"))
    try:
        for n, vnode in spec_out:
            val = lang.eval_value(vnode, None, rolling)
            rolling[n] = val
            if n == name:
                return jeq(val, exp)
    except lang.EvalFault:
        return False
    return False


World.terminal_merge_without_reapplication = _terminal_merge_without_reapplication


def norm_tasks(tasks):
    out = []
    for t in tasks or []:
        d = {"id": t["id"], "route": t["route"], "actions": t.get("actions"), "delay": t.get("delay"),
             "ctx": dict((k, v) for k, v in t["ctx"].items() if k != "__state"),
             "items_count": t.get("items_count"), "concurrency": t.get("concurrency")}
        out.append(d)
    return out


def first_diff(a, b, path=""):
    if type(a) != type(b):
        return "%s: %s != %s" % (path, canon(a)[:80], canon(b)[:80])
    if isinstance(a, dict):
        for k in sorted(set(a) | set(b), key=str):
            if k not in a:
                return "%s.%s: <absent> != %s" % (path, k, canon(b[k])[:80])
            if k not in b:
                return "%s.%s: %s != <absent>" % (path, k, canon(a[k])[:80])
            if not jeq(a[k], b[k]):
                return first_diff(a[k], b[k], "%s.%s" % (path, k))
        return "%s: equal" % path
    if isinstance(a, list):
        if len(a) != len(b):
            return "%s: len %d != %d (%s | %s)" % (path, len(a), len(b), canon(a)[:80], canon(b)[:80])
        for i, (x, y) in enumerate(zip(a, b)):
            if not jeq(x, y):
                return first_diff(x, y, "%s[%d]" % (path, i))
        return "%s: equal" % path
    return "%s: %s != %s" % (path, canon(a)[:80], canon(b)[:80])
