"""Properties decided on relations between several runs that share a seed and differ in exactly
one thing: the interpreter hash seed (C19), the completion order (C08), an inserted pause (C09),
a rerun (C17)."""
import collections
import copy
import json
import os
import subprocess
import sys

from dst import driver
from dst import lang
from dst.kernel import Keyed, derive_seed, digest, canon, jeq
from dst.props import SingleRun, COMMON_ASSUMPTIONS, kf_props, _sample
from dst.world import World, Violation, KnownFindingStop, Abort, GeneratorError, TERMINAL_WF

ROOT = os.path.dirname(os.path.dirname(os.path.abspath(__file__)))


def _ast(prog):
    from dst.checks import prog_to_json
    return prog_to_json(prog)


def _prog(ast):
    from dst.checks import prog_from_json
    return prog_from_json(ast)


# =========================================================================== C19

class C19(SingleRun):
    prop = "C19"
    RULE = ("each seed (definition + full fault mix) is executed in this interpreter (PYTHONHASHSEED=0) and in fresh interpreters under "
            "PYTHONHASHSEED=1 and a seed-derived value with other worker counts; digest chains (graph, inspection report, every "
            "get_next_tasks() answer in order, the persisted form after every call incl. insertion order, errors, output) are compared; "
            "get_next_tasks() is called twice at every dispatch point; 15% of the seeds instead break the definition in 1-4 places and "
            "compare the (non-empty) inspection report, in the order inspect() returns it, across the interpreters; non-trivial = the definition has a join and a with-items or split task")
    RUNS = {"quick": 1600, "thorough": 40000}
    faults = dict(poll_skip=0.1, poll_twice=0.1, restart=0.05, dup=0.05, pause=0.03, resume_early=0.1, cancel=0.02,
                  bad_request=0.03, rerun=0.3, p_fail=0.15, pending=0.03, act_cancel_solo=0.02, act_paused=0.03, early_pause=0.2,
                  early_cancel=0.1, cancel_while_pausing=0.1)
    world = dict(chain=True, poll_idem=True)
    CROSS = {"quick": 480, "thorough": 6000}
    kf_share = 0.0

    def nontrivial(self, r):
        f = r["prog"]["_features"]
        return "join" in f and bool(f & {"with_items", "split"})

    def package(self, r, profile):
        out = SingleRun.package(self, r, profile)
        w = r["world"]
        out["extra"] = {"chain": w.chain if w else None}
        return out

    # -- inspection report leg: "inspection yields the identical report" needs definitions whose
    #    report is not empty. A share of the seeds breaks the generated definition in several places
    #    (the C15 mutant menu plus references to one unassigned variable from several values of one
    #    property, where the report's sort key ties) and chains the report text in its own order.
    REPORT_SHARE = 0.15

    def evaluate(self, seed, tier):
        K = Keyed(seed)
        if K.u("profile", "report") >= self.REPORT_SHARE:
            return SingleRun.evaluate(self, seed, tier)
        prog = driver.make_program(K, self.profile(seed, tier))
        d = lang.render(prog)
        kinds = break_definition(d, prog, K.rng("report"))
        chain, n = report_chain(d)
        return {"outcome": "ok", "error": None, "final": None, "sig": digest([canon(d), "report"]),
                "stats": dict([("report_mode", 1), ("report_entries", n)] + [("report_" + k, 1) for k in set(kinds)]),
                "nontrivial": n >= 2, "extra": {"chain": chain, "definition": d},
                "sample": {"report_mode": sorted(set(kinds)), "entries": n} if n >= 2 else None}

    def chains_for(self, seeds, tier):
        res = {}
        for s in seeds:
            r = self.evaluate(s, tier)
            res[str(s)] = (r.get("extra") or {}).get("chain") if r["outcome"] in ("ok", "kf", "abort") else "outcome:" + r["outcome"]
        return res

    def post(self, results, tier, base_seed, jobs):
        """Cross-interpreter comparison of digest chains for a sample of the seeds just run."""
        sample = [r for r in results if r["outcome"] in ("ok", "kf", "abort") and (r.get("extra") or {}).get("chain")]
        sample = sample[: self.CROSS[tier]]
        seeds = [r["seed"] for r in sample]
        mine = dict((str(r["seed"]), r["extra"]["chain"]) for r in sample)
        viol, cov = [], {"cross_interpreter_seeds": len(seeds), "hash_seeds": [], "worker_counts": []}
        if not seeds:
            return viol, cov
        hs2 = 2 + derive_seed(base_seed, "hashseed") % 4000000
        for hs, workers in ((1, 5), (hs2, 3)):
            cov["hash_seeds"].append(hs)
            cov["worker_counts"].append(workers)
            theirs = sub_chains(seeds, tier, hs, workers)
            for s in seeds:
                a, b = mine.get(str(s)), theirs.get(str(s))
                if a != b:
                    viol.append({"seed": s, "violation": {
                        "prop": "C19", "clause": "same_digests",
                        "msg": "digest chain differs between PYTHONHASHSEED=0 (%s) and PYTHONHASHSEED=%d (%s)" % (a, hs, b),
                        "tags": [], "step": None}, "case": self.case_for_seed(s, tier, hs)})
                    break
        cov["fault_hashseed"] = len(seeds) * 2
        return viol, cov

    def case_for_seed(self, seed, tier, hs):
        if Keyed(seed).u("profile", "report") < self.REPORT_SHARE:
            r = self.evaluate(seed, tier)
            return {"mode": "report", "seed": seed, "definition": r["extra"]["definition"], "hashseed": hs,
                    "chain_here": r["extra"]["chain"]}
        profile = self.profile(seed, tier)
        r = driver.run_seed(seed, profile)
        from dst.props import _case
        c = _case(r, self.prop, {"hashseed": hs, "chain_here": r["world"].chain})
        return c

    def replay_case(self, case, as_prop=None):
        if case.get("mode") == "report":
            here = report_chain(case["definition"])[0]
            env = dict(os.environ, PYTHONHASHSEED=str(case["hashseed"]))
            code = ("import sys, json; sys.path.insert(0, %r); from dst import twins; "
                    "print('CHAIN', twins.report_chain(json.load(sys.stdin))[0])" % ROOT)
            out = subprocess.run([sys.executable, "-c", code], input=json.dumps(case["definition"]), env=env,
                                 capture_output=True, text=True, timeout=300)
            there = [ln.split()[1] for ln in out.stdout.splitlines() if ln.startswith("CHAIN ")]
            r = {"outcome": "ok", "stats": {}}
            if there != [here]:
                r = {"outcome": "violation", "stats": {}, "error": Violation(
                    "C19", "same_digests", "inspection report digest %s under PYTHONHASHSEED=%s, %s here"
                    % (there, case["hashseed"], here))}
            return r
        r = SingleRun.replay_case(self, case, as_prop)
        if r["outcome"] != "ok" or not case.get("hashseed"):
            return r
        here = r["world"].chain
        env = dict(os.environ, PYTHONHASHSEED=str(case["hashseed"]))
        code = ("import sys, json; sys.path.insert(0, %r); from dst import props; P = props.get('C19'); "
                "c = json.load(sys.stdin); r = P.replay_plain(c); print('CHAIN', r['world'].chain)" % ROOT)
        out = subprocess.run([sys.executable, "-c", code], input=json.dumps(case), env=env, capture_output=True,
                             text=True, timeout=300)
        there = None
        for line in out.stdout.splitlines():
            if line.startswith("CHAIN "):
                there = line.split()[1]
        if there != here:
            r["outcome"] = "violation"
            r["error"] = Violation("C19", "same_digests", "digest chain %s under PYTHONHASHSEED=%s, %s here"
                                   % (there, case["hashseed"], here))
        return r

    def replay_plain(self, case):
        return SingleRun.replay_case(self, case)

    def shrink(self, case, vi):
        if vi["clause"] == "same_digests":
            return case
        return SingleRun.shrink(self, case, vi)


def report_chain(definition):
    """(digest of the inspection report with every list in the order inspect() returned it, number
    of entries); an exception leaving inspect() is part of the answer, not hidden."""
    from orquesta.specs import native as native_specs
    try:
        report = native_specs.WorkflowSpec(copy.deepcopy(definition)).inspect()
    except Exception as e:  # noqa
        return digest(["raised", type(e).__name__, str(e)]), 0
    return digest(report), sum(len(v) for v in report.values())


def break_definition(d, prog, rng):
    """Break a rendered definition in 1-4 places; returns the kinds applied."""
    from dst.props import C15
    kinds = []
    tasks = d["tasks"]
    names = list(tasks.keys())
    for _ in range(1 + rng.randrange(4)):
        kind = rng.choice(C15.MUTANTS + ("tied_refs", "tied_refs", "tied_refs"))
        if kind == "no_start" and rng.random() < 0.7:
            continue
        if kind != "tied_refs":
            try:
                if C15.mutate(d, prog, kind, rng) is not None:
                    kinds.append(kind)
            except Exception:  # noqa  (a second mutation may meet what the first one left)
                pass
            continue
        # several values of one property refer to the same unassigned variable(s): the entries of
        # the report share schema path, spec path and variable name
        n = names[rng.randrange(len(names))]
        lng = rng.choice(["yaql", "jinja"])
        vs = ["zz_u%d" % i for i in range(1 + rng.randrange(3))]

        def ref(v, extra=""):
            return ("<%% ctx().%s %%>%s" if lng == "yaql" else "{{ ctx().%s }}%s") % (v, extra)
        where = rng.choice(["input", "publish", "vars", "output", "input_nested"])
        vals = [ref(rng.choice(vs), " #%d" % i) for i in range(2 + rng.randrange(4))]
        if rng.random() < 0.5:
            vals.append(ref(vs[0]) + " " + ref(vs[-1], " both"))
        if where == "input" and isinstance(tasks[n].get("input", {}), dict):
            for i, v in enumerate(vals):
                tasks[n].setdefault("input", {})["zz_k%d" % i] = v
        elif where == "input_nested" and isinstance(tasks[n].get("input", {}), dict):
            tasks[n].setdefault("input", {})["zz_n"] = {"a": vals[0], "b": [vals[1], {"c": vals[-1]}], "d": vals[-1]}
        elif where == "publish" and tasks[n].get("next") and isinstance(tasks[n]["next"][0].get("publish", []), list):
            tr = tasks[n]["next"][rng.randrange(len(tasks[n]["next"]))]
            if not isinstance(tr.get("publish", []), list):
                continue
            for i, v in enumerate(vals):
                tr.setdefault("publish", []).append({"zz_p%d" % i: v})
        elif where == "vars":
            for i, v in enumerate(vals):
                d.setdefault("vars", []).append({"zz_v%d" % i: v})
        elif where == "output":
            for i, v in enumerate(vals):
                d.setdefault("output", []).append({"zz_o%d" % i: v})
        else:
            continue
        kinds.append("tied_refs")
    return kinds


def sub_chains(seeds, tier, hashseed, workers):
    env = dict(os.environ, PYTHONHASHSEED=str(hashseed))
    code = ("import sys, json; sys.path.insert(0, %r); from dst import twins; twins._sub_main()" % ROOT)
    inp = json.dumps({"seeds": seeds, "tier": tier, "workers": workers})
    out = subprocess.run([sys.executable, "-c", code], input=inp, env=env, capture_output=True, text=True, timeout=3000)
    if out.returncode != 0:
        raise RuntimeError("sub-interpreter failed: %s" % out.stderr[-2000:])
    return json.loads(out.stdout.strip().splitlines()[-1])


def _sub_chunk(args):
    seeds, tier = args
    from dst import props
    return props.get("C19").chains_for(seeds, tier)


def _sub_main():
    import concurrent.futures
    import multiprocessing
    d = json.load(sys.stdin)
    seeds, tier, workers = d["seeds"], d["tier"], d["workers"]
    chunks = [seeds[i::workers * 3] for i in range(workers * 3)]
    res = {}
    with concurrent.futures.ProcessPoolExecutor(max_workers=workers, mp_context=multiprocessing.get_context("fork")) as ex:
        for part in ex.map(_sub_chunk, [(c, tier) for c in chunks if c]):
            res.update(part)
    print(json.dumps(res))


# =========================================================================== C08

class C08(object):
    prop = "C08"
    RUNS = {"quick": 900, "thorough": 12000}
    BUDGET_S = {"quick": 75, "thorough": 560}
    K = {"quick": 6, "thorough": 16}
    RULE = ("one scenario seed fixes an acyclic definition and a per-task outcome table; K schedule seeds (quick 6, thorough 16) permute "
            "the completion order through latencies; the K terminal states are compared (status; when succeeded: executed multiset, "
            "published values, outputs of non-racing variables); evaluations = scenarios; non-trivial = >= 3 distinct linearisations of "
            "one scenario; distinct = hash of (definition, set of linearisations)")
    ASSUMPTIONS = COMMON_ASSUMPTIONS + [
        "join: N with N < inbound is excluded: which N branches such a join sees is order-dependent by definition of the construct",
        "variables whose value was decided by arrival order at a merge (and values computed from them) are excluded, as the statement allows"]

    def profile(self, seed, tier):
        return {"name": "C08", "enabled": ["C08"], "gates": dict(loop=False, join_partial=False, join_in_loop=False),
                "force_gates": {"loop": False, "join_partial": False}, "acyclic": True,
                "faults": dict(p_fail=None), "world": dict(kf_props=kf_props()),
                "forbid_features": ["join_partial", "loop"], "outcome_per_task": True}

    def evaluate(self, seed, tier):
        profile = self.profile(seed, tier)
        K = Keyed(seed)
        prog = driver.make_program(K, profile)
        runs = []
        stats = {}
        for j in range(self.K[tier]):
            p = dict(profile, prog=prog)
            r = driver.run_seed(seed, p, sched_seed=derive_seed(seed, "sched", j))
            for k, v in r["stats"].items():
                stats[k] = stats.get(k, 0) + v
            if r["outcome"] != "ok":
                return {"outcome": r["outcome"], "error": r.get("error"), "stats": stats, "final": None,
                        "nontrivial": False, "sig": None, "case": self._case(prog, [r], profile) if r["outcome"] == "violation" else None}
            runs.append(r)
        return self.compare(prog, runs, stats, profile)

    def _obs(self, r):
        w = r["world"]
        L = w.ledger
        execd = collections.Counter(x.task for x in L.execs if x.kind != "bogus")
        pubs = collections.Counter()
        for d in L.deltas[1:]:
            for k, wr in d.items():
                if wr.wid not in L.tainted_writes:
                    pubs[canon([wr.src.split("@")[0] + "." + wr.src.split(".")[-1], k, wr.value])] += 1
        racy = terminal_racy(w)
        lin = tuple(op[1].split("@")[0] for op in r["ops"] if op[0] == "deliver")
        return {"status": w.status, "executed": execd, "published": pubs, "output": (w.snap or {}).get("output") or {},
                "racy": racy, "lin": lin, "racy_conditions": L.racy_conditions}

    def compare(self, prog, runs, stats, profile):
        obs = [self._obs(r) for r in runs]
        lins = set(o["lin"] for o in obs)
        out = {"outcome": "ok", "stats": stats, "final": obs[0]["status"], "sim_s": sum(r["sched"].heap.now for r in runs),
               "states": [list(s) for r in runs for s in r["world"].abstract_states],
               "nontrivial": len(lins) >= 3, "sig": digest([canon(runs[0]["world"].definition), sorted(lins)]),
               "extra": {"linearisations": len(lins)}}
        stats["linearisations"] = stats.get("linearisations", 0) + len(lins)
        if out["nontrivial"]:
            out["sample"] = {"tasks": len(prog["tasks"]), "features": sorted(prog["_features"]),
                             "linearisations": [list(l) for l in sorted(lins)[:4]], "final_status": obs[0]["status"]}
        if any(o["racy_conditions"] for o in obs):
            stats["scenario_skipped_racy_condition"] = stats.get("scenario_skipped_racy_condition", 0) + 1
            return out
        err = None
        a = obs[0]
        for j, b in enumerate(obs[1:], 1):
            if a["status"] != b["status"]:
                err = ("same_status", "final status %s under schedule 0, %s under schedule %d" % (a["status"], b["status"], j), j)
                break
            if a["status"] == "succeeded":
                if a["executed"] != b["executed"]:
                    err = ("same_executed", "executed tasks differ: %r vs %r" % (
                        sorted((a["executed"] - b["executed"]).items()), sorted((b["executed"] - a["executed"]).items())), j)
                    break
                if a["published"] != b["published"]:
                    err = ("same_published", "published values differ: %r vs %r" % (
                        sorted((a["published"] - b["published"]).items())[:3], sorted((b["published"] - a["published"]).items())[:3]), j)
                    break
                racy = a["racy"] | b["racy"]
                for name, vnode in nonracy_outputs(prog, racy):
                    if not jeq(a["output"].get(name), b["output"].get(name)):
                        err = ("same_output_nonracing", "output %s = %s under schedule 0, %s under schedule %d"
                               % (name, canon(a["output"].get(name))[:80], canon(b["output"].get(name))[:80], j), j)
                        break
                if err:
                    break
        if err:
            out["outcome"] = "violation"
            out["error"] = Violation("C08", err[0], err[1])
            out["case"] = self._case(prog, [runs[0], runs[err[2]]], profile)
            out["nontrivial"] = False
        return out

    def _case(self, prog, runs, profile):
        return {"mode": "multi", "ast": _ast(prog), "definition": lang.render(prog),
                "runs": [copy.deepcopy(r["ops"]) for r in runs],
                "world_opts": dict((k, v) for k, v in runs[0]["sched"].opts.items() if k != "kf_props")}

    def replay_case(self, case, as_prop=None):
        prog = _prog(case["ast"])
        profile = {"name": "C08", "enabled": [as_prop or "C08"], "world": dict(kf_props=kf_props())}
        runs = []
        for ops in case["runs"]:
            opts = dict(case.get("world_opts") or {})
            opts["kf_through"] = True
            r = driver.replay(prog, ops, profile, opts)
            if r["outcome"] != "ok":
                return r
            r["ops"] = ops
            r["sched"] = _FakeSched(opts)
            runs.append(r)
        return self.compare(prog, runs, {}, profile)

    def shrink(self, case, vi):
        return case


def terminal_racy(w):
    """Variables whose value at the terminal merge is decided by order (independent writes meet)."""
    L = w.ledger
    leaves = L.leaves()
    if not leaves:
        return set()
    fwd = None
    for ref in leaves:
        fwd = ref if fwd is None else L.merge_ctx(fwd, ref)
    bwd = None
    for ref in reversed(leaves):
        bwd = ref if bwd is None else L.merge_ctx(bwd, ref)
    return set(fwd.racy) | set(bwd.racy) | set(
        k for k in fwd.vals if not jeq(fwd.vals[k].value, bwd.vals[k].value if k in bwd.vals else None))


def nonracy_outputs(prog, racy):
    """Output entries that are not order-decided: neither read a racy variable nor an earlier
    output that did (outputs are rendered one after the other into a rolling context)."""
    racy = set(racy)
    out = []
    for name, vnode in prog.get("output") or []:
        if lang.reads(vnode) & racy:
            racy.add(name)
            continue
        racy.discard(name)
        out.append((name, vnode))
    return out


def output_stale_kf(w, name, vnode):
    """True when this world's rendered output `name` is explained by the known merge finding
    (an inherited older value overriding a newer one at the terminal merge)."""
    from dst.world import stale_explains
    if vnode[0] != "ctx":
        return False
    L = w.ledger
    leaves = L.leaves()
    if len(leaves) < 2:
        return False
    fwd = None
    for ref in leaves:
        fwd = ref if fwd is None else L.merge_ctx(fwd, ref)
    got = ((w.snap or {}).get("output") or {}).get(name)
    exp = fwd.vals.get(vnode[1])
    if exp is not None and jeq(exp.value, got):
        return False
    return stale_explains(vnode[1], got, fwd, leaves)


class _FakeSched(object):
    def __init__(self, opts):
        self.opts = opts
        self.heap = type("H", (), {"now": 0.0})()


# =========================================================================== C09

class PauseScheduler(driver.Scheduler):
    """Scheduler that inserts exactly one pause request at a keyed handler gap and resumes once
    the workflow rests in `paused` (or, per knob, early while still pausing)."""

    def __init__(self, seed, profile, pause_at):
        driver.Scheduler.__init__(self, seed, profile)
        self.pause_at = pause_at
        self.pause_done = False
        self.pause_accepted = False
        self.status_at_resume = None
        self.held_back = 0
        self.inflight_at_pause = 0

    def inject(self):
        w = self.world
        if w.c is None or self.pause_done or self.pos != self.pause_at or w.status in TERMINAL_WF:
            return
        self.pause_done = True
        self.inflight_at_pause = len(w.inflight)
        ok = self.do(["request", self.K.choice(["pausing", "pausing", "paused"], "ops", "pkind")])
        self.pause_accepted = bool(ok) and w.pause_req


class C09(object):
    prop = "C09"
    RUNS = {"quick": 1400, "thorough": 45000}
    BUDGET_S = {"quick": 75, "thorough": 560}
    RULE = ("twin runs: P inserts one pause request at a seeded handler gap (before the first dispatch, with k actions in flight, right "
            "after a failing task's event, just before the last completion, during retry back-off, inside a with-items window) and "
            "resumes once the workflow rests in paused; U replays the same completion order of the same action identities without the "
            "two requests; final status, executed multiset, errors and output compared; non-trivial = the pause was accepted with >= 1 "
            "action in flight and >= 1 task was held back")
    ASSUMPTIONS = COMMON_ASSUMPTIONS + [
        "both twins ask for next tasks after every handler, so by induction the unpaused twin has started every action the paused "
        "twin completes; actions only the unpaused twin started are drained afterwards as late completions"]

    def profile(self, seed, tier):
        return {"name": "C09", "enabled": ["C09"], "gates": dict(join_partial=False, join_in_loop=False),
                "faults": dict(p_fail=None, restart=0.0), "world": dict(kf_props=kf_props(), first_event="running"),
                "forbid_features": ["join_partial", "join_in_loop"], "dispatch_all": True}

    def evaluate(self, seed, tier):
        profile = self.profile(seed, tier)
        K = Keyed(seed)
        prog = driver.make_program(K, profile)
        pause_at = K.below(1 + min(10, len(prog["tasks"])), "ops", "pause_at")
        sp = PauseScheduler(seed, dict(profile, prog=prog), pause_at)
        res = {"outcome": "ok", "stats": sp.stats, "final": None, "nontrivial": False, "sig": None}
        try:
            wp = sp.run()
        except (Violation, KnownFindingStop, Abort, GeneratorError) as e:
            res["outcome"] = driver.classify(e)
            res["error"] = e
            if res["outcome"] == "violation":
                res["case"] = self._case(prog, sp.ops, None, sp.opts)
            return res
        res["final"] = wp.status
        res["sim_s"] = sp.heap.now
        res["states"] = [list(s) for s in wp.abstract_states]
        if not sp.pause_accepted:
            sp.stats["pause_not_placed"] = 1
            return res
        # the unpaused twin: same completion order of the same action identities
        uops, wu, err = self.run_unpaused(prog, sp, profile)
        if err is not None:
            res["outcome"] = driver.classify(err)
            res["error"] = err
            return res
        held = getattr(wp, "held_back", 0)
        res["nontrivial"] = sp.inflight_at_pause >= 1 and held >= 1
        res["sig"] = digest([canon(wp.definition), wp.sched_sig])
        if res["nontrivial"]:
            res["sample"] = {"tasks": len(prog["tasks"]), "features": sorted(prog["_features"]), "pause_at": pause_at,
                             "inflight_at_pause": sp.inflight_at_pause, "held_back": held, "final_status": wp.status,
                             "ops": sp.ops[:30]}
        v = self.compare(wp, wu)
        if v is not None:
            res["outcome"] = driver.classify(v)
            res["error"] = v
            res["nontrivial"] = False
            res["case"] = self._case(prog, sp.ops, uops, sp.opts)
        return res

    def run_unpaused(self, prog, sp, profile):
        stats = {}
        opts = dict(sp.opts)
        wu = World(prog, set(["C09"]), stats, opts)
        uops = []

        def do(op):
            uops.append(op)
            return wu.apply(copy.deepcopy(op))

        def dispatch_all():
            g = 0
            while do(["dispatch"]) and g < 20:
                g += 1
        try:
            do(["start"])
            if wu.status not in TERMINAL_WF:
                dispatch_all()
            for op in sp.ops:
                if op[0] != "deliver":
                    continue
                if op[1] not in wu.inflight:
                    stats["u_missing"] = stats.get("u_missing", 0) + 1
                    sp.stats["u_missing"] = sp.stats.get("u_missing", 0) + 1
                    continue
                do(list(op))
                dispatch_all()
            # drain what only the unpaused twin started
            guard = 0
            while guard < 300:
                guard += 1
                if not wu.inflight:
                    if do(["idle"]):
                        continue
                    break
                aid = sorted(wu.inflight, key=lambda a: (sp.KS.u("drain", a), a))[0]
                a = wu.inflight[aid]
                x = a["x"]
                shape = (prog["tasks"].get(a["task"]) or {}).get("shape", "token")
                rk = driver.route_identity(wu, x.route)
                status, result = sp.outcome(a["task"], x.visit, x.attempt, a["item"], shape, rk)
                do(["deliver", aid, status, result])
                dispatch_all()
            do(["final"])
        except (Violation, KnownFindingStop, Abort, GeneratorError) as e:
            return uops, wu, e
        finally:
            wu.remove_seam()
        return uops, wu, None

    def compare(self, wp, wu):
        v = self.compare_plain(wp, wu)
        if v is not None:
            cut = items_cut_short(wp, wu)
            if cut:
                # precise history of a known finding: the pause landed while a with-items task that
                # already had a failed item still had items to offer; at rest the task fails instead
                # of pausing, and the held-back items are never processed
                return KnownFindingStop("KF-pause-cuts-failing-with-items-short", "C09", v.clause,
                                        "%s; %s" % (cut, v.msg), ["pause_with_failed_item_and_items_left"])
        return v

    def compare_plain(self, wp, wu):
        if wp.status != wu.status:
            return Violation("C09", "same_outcome", "final status %s with the pause, %s without" % (wp.status, wu.status))
        if getattr(wp, "failed_while_pausing", False):
            return None
        ep = collections.Counter(x.task for x in wp.ledger.execs if x.kind != "bogus")
        eu = collections.Counter(x.task for x in wu.ledger.execs if x.kind != "bogus")
        if wp.status == "succeeded" and ep != eu:
            return Violation("C09", "same_outcome", "executed tasks differ: with pause %r, without %r"
                             % (sorted((ep - eu).items()), sorted((eu - ep).items())))
        if wp.status == "succeeded":
            # which items of an already failing with-items task still get to run depends on when
            # the task goes dormant; entries are compared by what failed, not by item payload
            def ekey(e):
                return canon([e.get("message"), e.get("task_id"), e.get("task_transition_id")])
            def relevant(w, e):
                # per-item "Execution failed" entries of a with-items task depend on which items got
                # to run before the task went dormant (see above): not part of the comparison
                return True
            errp = set(ekey(e) for e in wp.snap["errors"] if relevant(wp, e))
            erru = set(ekey(e) for e in wu.snap["errors"] if relevant(wu, e))
            if errp != erru:
                return Violation("C09", "same_outcome", "errors differ: with pause %r, without %r"
                                 % (sorted(errp - erru)[:2], sorted(erru - errp)[:2]))
            racy = terminal_racy(wp) | terminal_racy(wu)
            op_, ou_ = wp.snap.get("output") or {}, wu.snap.get("output") or {}
            for name, vnode in nonracy_outputs(wp.p, racy):      # the rest is decided by start order
                if not jeq(op_.get(name), ou_.get(name)):
                    return Violation("C09", "same_outcome", "output %s differs: with pause %s, without %s"
                                     % (name, canon(op_.get(name))[:100], canon(ou_.get(name))[:100]))
        return None


    def _case(self, prog, pops, uops, opts):
        return {"mode": "pause-twin", "ast": _ast(prog), "definition": lang.render(prog), "ops": copy.deepcopy(pops),
                "ops_unpaused": copy.deepcopy(uops), "world_opts": dict((k, v) for k, v in opts.items() if k != "kf_props")}

    def replay_case(self, case, as_prop=None):
        prog = _prog(case["ast"])
        profile = {"name": "C09", "enabled": [as_prop or "C09"], "world": dict(kf_props=kf_props())}
        opts = dict(case.get("world_opts") or {})
        opts["kf_through"] = True
        rp = driver.replay(prog, case["ops"], profile, opts)
        if rp["outcome"] != "ok" or not case.get("ops_unpaused"):
            return rp
        ru = driver.replay(prog, case["ops_unpaused"], profile, opts)
        if ru["outcome"] != "ok":
            return ru
        v = self.compare(rp["world"], ru["world"])
        if v is not None:
            return {"outcome": driver.classify(v), "error": v, "world": rp["world"], "stats": {}}
        return rp

    def shrink(self, case, vi):
        if case.get("ops_unpaused") is None:
            prog = _prog(case["ast"])
            profile = {"name": "C09", "enabled": ["C09"], "world": dict(kf_props=kf_props())}
            ops, ok = driver.shrink_ops(prog, case["ops"], profile, vi["prop"], vi["clause"], kf=vi.get("kf"),
                                        opts=case.get("world_opts"))
            if ok:
                case = dict(case, ops=ops)
        return case


def items_cut_short(wp, wu):
    """A with-items execution that offered fewer items with the pause than without it, and had an
    item that did not succeed: returns a description, else None."""
    for xp in wp.ledger.execs:
        it = xp.items
        if not it or not it.get("n"):
            continue
        np_ = len(set(it["offered"]))
        if np_ >= it["n"] or all(st == "succeeded" for st in it["done"].values()):
            continue
        for xu in wu.ledger.execs:
            if (xu.task, xu.route, xu.visit, xu.attempt) == (xp.task, xp.route, xp.visit, xp.attempt) and xu.items:
                nu = len(set(xu.items["offered"]))
                if nu > np_:
                    return ("with-items execution %s offered %d of %d items with the pause, %d without"
                            % (xp.key(), np_, it["n"], nu))
    return None


# =========================================================================== C17

class RerunScheduler(driver.Scheduler):
    """Drives a run to a terminal status, then lets the operator request a rerun of a seeded kind.
    Re-executed actions succeed ("if the re-executed actions now succeed ...")."""

    def __init__(self, seed, profile, plan, forced_all=None):
        driver.Scheduler.__init__(self, seed, profile)
        self.plan = plan
        self.forced_all = forced_all          # K twin: these tasks succeed the first time
        self.forced_after = None              # main run: tasks forced to succeed after the rerun
        self.floor = None
        self.rerun_tried = False
        self.rerun_accepted = False
        self.rerun_reqs = None
        self.cause_clean = False
        self.status_before = None
        self.active_probe_done = False

    def outcome_for(self, a):
        x = a["x"]
        shape = (self.prog["tasks"].get(a["task"]) or {}).get("shape", "token")
        ident = (a["task"], driver.route_identity(self.world, x.route))
        forced = (self.forced_all is not None and ident in self.forced_all) or \
                 (self.forced_after is not None and ident in self.forced_after and x.xid >= self.floor)
        if forced:
            _, result = self.outcome(a["task"], 1, 1, a["item"], shape, self.route_key(x))
            return "succeeded", result
        return self.outcome(a["task"], x.visit, x.attempt, a["item"], shape, self.route_key(x))

    def inject(self):
        w = self.world
        if self.plan == "while_active" and not self.active_probe_done and self.pos == 2 and w.c is not None \
                and w.status not in TERMINAL_WF:
            self.active_probe_done = True
            self.do(["rerun", None])

    def settle(self):
        w = self.world
        if w.c is None or self.rerun_tried or w.status not in TERMINAL_WF or self.forced_all is not None:
            return False
        self.rerun_tried = True
        L = w.ledger
        K = self.K
        plan = self.plan
        self.status_before = w.status
        failed = [x for x in L.execs if x.xid in L.unhandled and x.kind != "bogus"]
        reqs = None
        if plan in ("default", "explicit_failed", "reset_items") and w.status == "succeeded":
            # a default rerun of a succeeded workflow has nothing to select (a known finding);
            # spend most of those runs on explicit requests instead
            if K.u("ops", "succ_default") < 0.85:
                plan = "explicit_mix"
        if plan == "explicit_failed" and failed:
            reqs = [[x.task, x.route, False] for x in failed]
        elif plan == "reset_items":
            wi = [x for x in failed if x.items is not None]
            if wi:
                reqs = [[wi[0].task, wi[0].route, True]]
        elif plan == "explicit_mix":
            done = [x for x in L.execs if x.state == "done" and x.kind != "bogus"]
            if done:
                n = 1 + K.below(3, "ops", "mixn")
                reqs = []
                for j in range(n):
                    x = done[K.below(len(done), "ops", "mix", j)]
                    reqs.append([x.task, x.route, K.u("ops", "mixreset", j) < 0.2])
                if K.u("ops", "mixdup") < 0.3:
                    reqs.append(list(reqs[0]))
        elif plan == "nonexistent":
            reqs = [["nosuch_zz", 0, False]]
        self.rerun_reqs = reqs
        self.cause_clean = bool(failed) and not L.fail_cmd and not L.runtime_errors and not L.unsatisfied_barriers() \
            and w.status == "failed"
        self.floor = len(L.execs)
        ok = self.do(["rerun", reqs])
        self.rerun_accepted = bool(ok)
        if ok:
            self.forced_after = set((x.task, driver.route_identity(w, x.route)) for x in (w.rerun_selected or []))
            n = self.do(["dispatch"])
            g = 0
            while n and g < 20:
                g += 1
                n = self.do(["dispatch"])
            return True
        return False


class C17(object):
    prop = "C17"
    RUNS = {"quick": 1500, "thorough": 45000}
    BUDGET_S = {"quick": 75, "thorough": 560}
    RULE = ("runs are driven to failed (task failure, item failure, fail command, runtime error, unreachable join) or succeeded; "
            "then the operator requests a rerun: default / explicitly the failed tasks / a mix of executed tasks incl. downstream "
            "pairs and duplicates / reset_items / a non-existent task / while the workflow is active; re-executed actions succeed; "
            "offers after the request are matched against rerun entitlements; for default and explicit-failed reruns after plain task "
            "failures a twin in which those tasks succeed the first time gives the expected final status and output; "
            "non-trivial = an accepted rerun in a run that had >= 1 completed sibling branch")
    ASSUMPTIONS = COMMON_ASSUMPTIONS + [
        "convergence is compared only for acyclic re-executed tasks and for outputs that are not order-decided",
        "the provider keeps the results of items that had succeeded when a with-items task is re-executed without reset_items"]
    PLANS = ["default", "default", "default", "explicit_failed", "explicit_failed", "explicit_mix", "explicit_mix",
             "reset_items", "nonexistent", "while_active"]

    def profile(self, seed, tier):
        K = Keyed(seed)
        p = {"name": "C17", "enabled": ["C17"], "gates": dict(join_partial=False, join_in_loop=False),
             # (no skipped polls: which items of an already failing with-items task still get offered
             # depends on when the engine is polled, and the two twins must agree on that)
             "faults": dict(p_fail=K.choice([0.15, 0.3, 0.3, 0.5], "pf17"), poll_skip=0.0, restart=0.03),
             "world": dict(kf_props=kf_props()), "forbid_features": ["join_partial", "join_in_loop"],
             "dispatch_all": True}
        if K.u("profile", "split17") < 0.3:
            # a share of the budget on multi-referenced tasks: the same task executed under several
            # routes, failing on one of them, is where a rerun can disturb what completed elsewhere
            p["require_features"] = ["split"]
            p["force_gates"] = {"split": True, "fork": True, "loop": False, "publish": True}
            p["size"] = [5, 6, 7, 8, 10]
            p["plans"] = ["default", "explicit_failed"]
        return p

    def evaluate(self, seed, tier):
        profile = self.profile(seed, tier)
        K = Keyed(seed)
        prog = driver.make_program(K, profile)
        plan = K.choice(profile.get("plans") or self.PLANS, "ops", "plan")
        sm = RerunScheduler(seed, dict(profile, prog=prog), plan)
        res = {"outcome": "ok", "stats": sm.stats, "final": None, "nontrivial": False, "sig": None}
        try:
            wm = sm.run()
        except (Violation, KnownFindingStop, Abort, GeneratorError) as e:
            res["outcome"] = driver.classify(e)
            res["error"] = e
            if res["outcome"] in ("violation", "kf"):
                res["case"] = self._case(prog, sm.ops, None, sm.opts, plan)
            return res
        res["final"] = wm.status
        res["sim_s"] = sm.heap.now
        res["states"] = [list(s) for s in wm.abstract_states]
        sm.stats["plan_" + plan] = 1
        if not sm.rerun_accepted:
            return res
        L = wm.ledger
        siblings = len(set(x.task for x in L.execs[: sm.floor or 0] if x.state == "done")) >= 2
        res["nontrivial"] = siblings
        res["sig"] = digest([canon(wm.definition), wm.sched_sig])
        if res["nontrivial"]:
            res["sample"] = {"tasks": len(prog["tasks"]), "features": sorted(prog["_features"]), "plan": plan,
                             "requests": sm.rerun_reqs, "status_before": sm.status_before, "final_status": wm.status,
                             "re_executed": sorted(t for t, _ in (sm.forced_after or [])), "ops": sm.ops[-25:]}
        # convergence twin
        forced = sm.forced_after or set()
        if plan in ("default", "explicit_failed") and sm.cause_clean and forced and wm.status in TERMINAL_WF \
                and not wm.retry_cut and not any(wm.ledger.retry_policy(t) for t, _ in forced) \
                and not any(lang.in_cycle(prog, t) for t, _ in forced):
            sk = RerunScheduler(seed, dict(profile, prog=prog), "none", forced_all=forced)
            try:
                wk = sk.run()
            except (Violation, KnownFindingStop, Abort, GeneratorError) as e:
                sm.stats["twin_aborted"] = 1
                return res
            sm.stats["probe_convergence_twin"] = 1
            if wm.partial_items or wk.partial_items:
                # a with-items task that fails stops offering items when it goes dormant or when the
                # workflow fails elsewhere; how far it got is schedule dependent and stays as it is
                # after a rerun of another task, so the two runs are not comparable
                sm.stats["twin_skipped_partial_items"] = 1
                return res
            v = self.compare(wm, wk)
            if v is not None:
                res["outcome"] = driver.classify(v)
                res["error"] = v
                res["nontrivial"] = False
                res["case"] = self._case(prog, sm.ops, sk.ops, sm.opts, plan)
        return res

    def compare(self, wm, wk):
        if wm.status != wk.status:
            return Violation("C17", "converges", "after the rerun the workflow ended %s; with those tasks succeeding the "
                             "first time it ends %s" % (wm.status, wk.status))
        if wm.status == "succeeded":
            racy = terminal_racy(wm) | terminal_racy(wk)
            om, ok_ = wm.snap.get("output") or {}, wk.snap.get("output") or {}
            for name, vnode in nonracy_outputs(wm.p, racy):
                if not jeq(om.get(name), ok_.get(name)):
                    if output_stale_kf(wm, name, vnode) or output_stale_kf(wk, name, vnode):
                        return KnownFindingStop("KF-stale-inherited-value-at-merge", "C17", "converges",
                                                "output %s differs through the terminal merge finding" % name,
                                                ["stale_inherited_value_at_merge", "terminal_merge"])
                    return Violation("C17", "converges", "output %s = %s after the rerun, %s in the clean run"
                                     % (name, canon(om.get(name))[:100], canon(ok_.get(name))[:100]))
        return None

    def _case(self, prog, mops, kops, opts, plan):
        return {"mode": "rerun-twin", "ast": _ast(prog), "definition": lang.render(prog), "ops": copy.deepcopy(mops),
                "ops_clean": copy.deepcopy(kops), "plan": plan,
                "world_opts": dict((k, v) for k, v in opts.items() if k != "kf_props")}

    def replay_case(self, case, as_prop=None):
        prog = _prog(case["ast"])
        profile = {"name": "C17", "enabled": [as_prop or "C17"], "world": dict(kf_props=kf_props())}
        opts = dict(case.get("world_opts") or {})
        opts["kf_through"] = True
        rm = driver.replay(prog, case["ops"], profile, opts)
        if rm["outcome"] != "ok" or not case.get("ops_clean"):
            return rm
        rk = driver.replay(prog, case["ops_clean"], profile, opts)
        if rk["outcome"] != "ok":
            return rk
        v = self.compare(rm["world"], rk["world"])
        if v is not None:
            return {"outcome": driver.classify(v), "error": v, "world": rm["world"], "stats": {}}
        return rm

    def shrink(self, case, vi):
        if case.get("ops_clean") is None:
            prog = _prog(case["ast"])
            profile = {"name": "C17", "enabled": ["C17"], "world": dict(kf_props=kf_props())}
            ops, ok = driver.shrink_ops(prog, case["ops"], profile, vi["prop"], vi["clause"], kf=vi.get("kf"),
                                        opts=case.get("world_opts"))
            if ok:
                case = dict(case, ops=ops)
        return case


def register(reg):
    reg["C17"] = C17()
    reg["C19"] = C19()
    reg["C08"] = C08()
    reg["C09"] = C09()
