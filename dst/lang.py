"""Generator AST for workflow definitions, renderer to an Orquesta definition, and the harness's
own (independent) evaluator for conditions and values.

AST (plain JSON-able python):
  Program = {input:[[name, default]], vars:[[name, json]], tasks:{name: Task} (insertion ordered),
             output:[[name, Value]], knobs:{...}}
  Task    = {action:str, input:{k: Value}, delay:None|int|Value, join:None|'all'|int,
             with:None|{items:Value, key:None|str, concurrency:None|int|Value},
             retry:None|{count:int|Value, when:Cond|None, delay:None|int|Value},
             next:[Transition], shape:'token'|'dict'|'int'}
  Transition = {when:Cond|None, publish:[[var, Value]], do:[name]}
  Cond  = ['succeeded'] | ['failed'] | ['completed'] | ['result_eq', k] | ['result_field_eq', f, k]
        | ['ctx_eq', v, k] | ['ctx_lt', v, n] | ['and', a, b] | ['or', a, b] | ['not', a] | ['faulty', kind]
  Value = ['lit', json] | ['result'] | ['result_field', f] | ['ctx', v] | ['ctx_plus1', v]
        | ['item'] | ['item_key', k] | ['faulty', kind]
"""
import copy

ENGINE_COMMANDS = ("continue", "fail", "noop", "retry")

FAULT_KINDS = ("undefined_var", "missing_key", "wrong_type", "unknown_function")


class EvalFault(Exception):
    """The harness evaluator's prediction that the real evaluator fails on this node."""


# --------------------------------------------------------------------------- rendering

def _lit(k, lang):
    if isinstance(k, bool):
        return ("true" if k else "false") if lang == "yaql" else ("True" if k else "False")
    if isinstance(k, int):
        return str(k)
    if k is None:
        return "null" if lang == "yaql" else "None"
    return "'%s'" % k


def _ctxref(v, lang, form):
    if lang == "yaql":
        return {0: "ctx(%s)" % v, 1: "ctx('%s')" % v, 2: "ctx().%s" % v, 3: 'ctx("%s")' % v}[form % 4]
    return {0: "ctx('%s')" % v, 1: 'ctx("%s")' % v, 2: "ctx().%s" % v}[form % 3]


def _faulty_expr(kind, lang):
    if kind == "undefined_var":
        return "ctx('nosuchvar_zz')" if lang == "jinja" else "ctx(nosuchvar_zz)"
    if kind == "missing_key":
        return "ctx().nosuchkey_zz.sub" if lang == "jinja" else "ctx().get(nosuchkey_zz).sub.sub2"
    if kind == "wrong_type":
        return "1 + 'a'" if lang == "jinja" else "1 + 'a'"
    if kind == "unknown_function":
        return "nosuchfunc_zz(1)"
    raise ValueError(kind)


def cond_src(c, lang, form=0):
    op = c[0]
    eq = "=" if lang == "yaql" else "=="
    if op in ("succeeded", "failed", "completed"):
        return "%s()" % op
    if op == "result_eq":
        return "result() %s %s" % (eq, _lit(c[1], lang))
    if op == "result_field_eq":
        return "result().get('%s') %s %s" % (c[1], eq, _lit(c[2], lang))
    if op == "ctx_eq":
        return "%s %s %s" % (_ctxref(c[1], lang, form), eq, _lit(c[2], lang))
    if op == "ctx_lt":
        return "%s < %d" % (_ctxref(c[1], lang, form), c[2])
    if op == "and":
        return "(%s) and (%s)" % (cond_src(c[1], lang, form), cond_src(c[2], lang, form + 1))
    if op == "or":
        return "(%s) or (%s)" % (cond_src(c[1], lang, form), cond_src(c[2], lang, form + 1))
    if op == "not":
        return "not (%s)" % cond_src(c[1], lang, form)
    if op == "faulty":
        return _faulty_expr(c[1], lang)
    raise ValueError("cond %r" % (c,))


def wrap(src, lang):
    return "<%% %s %%>" % src if lang == "yaql" else "{{ %s }}" % src


def value_src(v, lang, form=0):
    op = v[0]
    if op == "result":
        return "result()"
    if op == "result_field":
        return "result().get('%s')" % v[1]
    if op == "ctx":
        return _ctxref(v[1], lang, form)
    if op == "ctx_plus1":
        return "%s + 1" % _ctxref(v[1], lang, form)
    if op == "item":
        return "item()"
    if op == "item_key":
        return "item(%s)" % v[1] if lang == "yaql" else "item('%s')" % v[1]
    if op == "faulty":
        return _faulty_expr(v[1], lang)
    raise ValueError("value %r" % (v,))


class Renderer(object):
    """Renders a Program to the dict Orquesta's WorkflowSpec takes.  Language and notation are
    per-run knobs; `mix` makes the language vary per expression (deterministically by position)."""

    def __init__(self, knobs):
        self.lang = knobs.get("lang", "yaql")
        self.mix = knobs.get("mix", False)
        self.form = knobs.get("ref_form", 0)
        self.do_str = knobs.get("do_str", False)
        self.with_str = knobs.get("with_str", False)
        self.omit_continue = knobs.get("omit_continue", True)
        self.n = 0

    def _lang(self):
        self.n += 1
        if self.mix:
            return "yaql" if (self.n * 7 + self.form) % 3 else "jinja"
        return self.lang

    def value(self, v):
        if v[0] == "lit":
            return copy.deepcopy(v[1])
        lang = self._lang()
        return wrap(value_src(v, lang, self.form + self.n), lang)

    def cond(self, c):
        lang = self._lang()
        return wrap(cond_src(c, lang, self.form + self.n), lang)

    def intish(self, x):
        return x if isinstance(x, int) or x is None else self.value(x)

    def program(self, p):
        d = {"version": 1.0}
        if p.get("input"):
            d["input"] = [({n: copy.deepcopy(dv)} if dv is not None else n) for n, dv in p["input"]]
        if p.get("vars"):
            d["vars"] = [{n: (self.value(v) if _is_node(v) else copy.deepcopy(v))} for n, v in p["vars"]]
        if p.get("output"):
            d["output"] = [{n: self.value(v)} for n, v in p["output"]]
        d["tasks"] = {}
        for name, t in p["tasks"].items():
            d["tasks"][name] = self.task(t)
        return d

    def task(self, t):
        d = {}
        if t.get("delay") is not None:
            d["delay"] = self.intish(t["delay"])
        if t.get("join") is not None:
            d["join"] = t["join"]
        w = t.get("with")
        if w is not None:
            items = self.value(w["items"])
            if w.get("key"):
                items = "%s in %s" % (w["key"], items)
            if self.with_str and w.get("concurrency") is None:
                d["with"] = items
            else:
                d["with"] = {"items": items}
                if w.get("concurrency") is not None:
                    d["with"]["concurrency"] = self.intish(w["concurrency"])
        if t.get("action") is not None:
            d["action"] = t["action"] if not _is_node(t["action"]) else self.value(t["action"])
        if t.get("input"):
            d["input"] = {k: self.value(v) for k, v in t["input"].items()}
        r = t.get("retry")
        if r is not None:
            d["retry"] = {"count": self.intish(r["count"])}
            if r.get("when") is not None:
                d["retry"]["when"] = self.cond(r["when"])
            if r.get("delay") is not None:
                d["retry"]["delay"] = self.intish(r["delay"])
        nxt = []
        for tr in t.get("next") or []:
            e = {}
            if tr.get("when") is not None:
                e["when"] = self.cond(tr["when"])
            if tr.get("publish"):
                e["publish"] = [{v: self.value(x)} for v, x in tr["publish"]]
            do = list(tr.get("do") or [])
            if do == ["continue"] and self.omit_continue and e:
                pass
            elif do:
                e["do"] = ", ".join(do) if (self.do_str and len(do) > 1) else (do[0] if (self.do_str and len(do) == 1) else do)
            nxt.append(e)
        if nxt:
            d["next"] = nxt
        return d


def _is_node(v):
    return isinstance(v, (list, tuple)) and len(v) >= 1 and isinstance(v[0], str) and v[0] in (
        "lit", "result", "result_field", "ctx", "ctx_plus1", "item", "item_key", "faulty")


def render(program):
    return Renderer(program.get("knobs") or {}).program(program)


# --------------------------------------------------------------------------- own evaluator

COMPLETED = ("succeeded", "failed", "timeout", "abandoned", "canceled")


def eval_cond(c, status, result, ctx):
    """status: the task status ('succeeded' | 'failed' | 'canceled'); ctx: var -> value."""
    op = c[0]
    if op == "succeeded":
        return status == "succeeded"
    if op == "failed":
        return status == "failed"
    if op == "completed":
        return status in COMPLETED
    if op == "result_eq":
        return _veq(result, c[1])
    if op == "result_field_eq":
        if not isinstance(result, dict):
            raise EvalFault("result is not a dict")
        return _veq(result.get(c[1]), c[2])
    if op == "ctx_eq":
        return _veq(_ctx(ctx, c[1]), c[2])
    if op == "ctx_lt":
        x = _ctx(ctx, c[1])
        if not isinstance(x, int) or isinstance(x, bool):
            raise EvalFault("not an int")
        return x < c[2]
    if op == "and":
        return eval_cond(c[1], status, result, ctx) and eval_cond(c[2], status, result, ctx)
    if op == "or":
        return eval_cond(c[1], status, result, ctx) or eval_cond(c[2], status, result, ctx)
    if op == "not":
        return not eval_cond(c[1], status, result, ctx)
    if op == "faulty":
        raise EvalFault(c[1])
    raise ValueError("cond %r" % (c,))


def _veq(a, b):
    if isinstance(a, bool) or isinstance(b, bool):
        return a is b
    return a == b and type(a) == type(b) if (a is not None and b is not None) else a is b


def _ctx(ctx, v):
    if v not in ctx:
        raise EvalFault("undefined variable %s" % v)
    return ctx[v]


def eval_value(v, result, ctx, item=None):
    op = v[0]
    if op == "lit":
        return copy.deepcopy(v[1])
    if op == "result":
        return copy.deepcopy(result)
    if op == "result_field":
        if not isinstance(result, dict):
            raise EvalFault("result is not a dict")
        return copy.deepcopy(result.get(v[1]))
    if op == "ctx":
        return copy.deepcopy(_ctx(ctx, v[1]))
    if op == "ctx_plus1":
        x = _ctx(ctx, v[1])
        if not isinstance(x, int) or isinstance(x, bool):
            raise EvalFault("not an int")
        return x + 1
    if op == "item":
        return copy.deepcopy(item)
    if op == "item_key":
        if not isinstance(item, dict) or v[1] not in item:
            raise EvalFault("item key")
        return copy.deepcopy(item[v[1]])
    if op == "faulty":
        raise EvalFault(v[1])
    raise ValueError("value %r" % (v,))


def reads(node):
    """Context variables a Cond/Value node reads."""
    op = node[0]
    if op in ("ctx", "ctx_plus1"):
        return {node[1]}
    if op in ("ctx_eq", "ctx_lt"):
        return {node[1]}
    if op in ("and", "or"):
        return reads(node[1]) | reads(node[2])
    if op == "not":
        return reads(node[1])
    return set()


# --------------------------------------------------------------------------- static helpers

def transitions(program, name):
    return program["tasks"][name].get("next") or []


def inbound(program):
    """task -> list of (source task, transition index) over the AST (engine commands excluded)."""
    inc = {n: [] for n in program["tasks"]}
    for src, t in program["tasks"].items():
        for i, tr in enumerate(t.get("next") or []):
            for tgt in tr.get("do") or []:
                if tgt in inc:
                    inc[tgt].append((src, i))
    return inc


def start_tasks(program):
    inc = inbound(program)
    return sorted(n for n, l in inc.items() if not l)


def in_cycle(program, name):
    seen = set()
    stack = [tgt for tr in transitions(program, name) for tgt in tr.get("do") or [] if tgt in program["tasks"]]
    while stack:
        n = stack.pop()
        if n == name:
            return True
        if n in seen:
            continue
        seen.add(n)
        for tr in transitions(program, n):
            for tgt in tr.get("do") or []:
                if tgt in program["tasks"]:
                    stack.append(tgt)
    return False


def has_cycle(program):
    return any(in_cycle(program, n) for n in program["tasks"])


def is_join(program, name):
    return program["tasks"][name].get("join") is not None


def is_split(program, name, _inc=None):
    inc = _inc if _inc is not None else inbound(program)
    return (not is_join(program, name)) and len(inc[name]) > 1 and not in_cycle(program, name)


def join_requirement(program, name, _inc=None):
    inc = _inc if _inc is not None else inbound(program)
    j = program["tasks"][name]["join"]
    srcs = set(s for s, _ in inc[name])
    return len(srcs) if j == "all" else int(j)
