"""Simulation kernel: keyed PRNG streams, canonical JSON, digests, virtual-time event heap.

One integer (the run seed) decides everything.  Choices are *keyed*, not sequential:
draw(stream, key...) = sha256(seed | stream | key) so that twin runs that differ in one
thing (an inserted pause, a crash point, a permuted latency) share every other choice,
and so that shrinking an op list does not perturb the choices of the remaining steps.
Nothing in here reads a real clock or the global `random` module.
"""
import hashlib
import heapq
import json
import random


def h64(*parts):
    m = hashlib.sha256()
    for p in parts:
        m.update(repr(p).encode("utf-8"))
        m.update(b"\x1f")
    return int.from_bytes(m.digest()[:8], "big")


def derive_seed(base, *parts):
    return h64("derive", int(base), *parts) & 0x7FFFFFFFFFFFFFFF


class Keyed(object):
    """Keyed draws for one run seed."""

    def __init__(self, seed):
        self.seed = int(seed)

    def u(self, stream, *key):
        return h64(self.seed, stream, *key) / 2.0 ** 64

    def below(self, n, stream, *key):
        return h64(self.seed, stream, *key) % n

    def choice(self, seq, stream, *key):
        return seq[h64(self.seed, stream, *key) % len(seq)]

    def rng(self, stream, *key):
        """A sequential generator for one self-contained sub-task (e.g. definition generation)."""
        return random.Random(h64(self.seed, "rng", stream, *key))


def canon(obj):
    """Canonical JSON text (sorted keys) used for comparisons and digests."""
    return json.dumps(obj, sort_keys=True, separators=(",", ":"), default=_default)


def _default(o):
    if isinstance(o, (set, frozenset)):
        return sorted(o, key=repr)
    if isinstance(o, tuple):
        return list(o)
    return repr(o)


def digest(obj):
    return hashlib.sha256(canon(obj).encode("utf-8")).hexdigest()[:16]


def jeq(a, b):
    """Equality in value *and* JSON type (True != 1, 1 != 1.0)."""
    return canon(a) == canon(b)


class Heap(object):
    """Discrete-event queue ordered by (virtual time, global seq): a total order, no ties."""

    def __init__(self):
        self.q = []
        self.seq = 0
        self.now = 0.0

    def push(self, at, ev):
        self.seq += 1
        heapq.heappush(self.q, (float(at), self.seq, ev))
        return self.seq

    def pop(self):
        at, seq, ev = heapq.heappop(self.q)
        if at > self.now:
            self.now = at
        return at, seq, ev

    def __len__(self):
        return len(self.q)

    def remove_if(self, pred):
        keep = [x for x in self.q if not pred(x[2])]
        removed = len(self.q) - len(keep)
        self.q = keep
        heapq.heapify(self.q)
        return removed
