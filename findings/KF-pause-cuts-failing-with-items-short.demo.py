from orquesta import conducting, events, statuses
from orquesta.specs import native
WF = """
version: 1.0
vars:
  - xs: [a, b, c, d, e, f]
tasks:
  t1:
    with:
      items: <% ctx(xs) %>
      concurrency: 2
    action: core.echo message=<% item() %>
    next:
      - when: <% failed() %>
        publish:
          - r: <% result() %>
        do: h
  h:
    action: core.noop
output:
  - r: <% ctx(r) %>
"""
def run(pause):
    c = conducting.WorkflowConductor(native.WorkflowSpec(WF))
    c.request_workflow_status(statuses.RUNNING)
    inflight = []
    acc = [None] * 6
    def dispatch():
        for t in c.get_next_tasks():
            if t['id'] == 't1':
                for a in t['actions']:
                    c.update_task_state('t1', 0, events.TaskItemActionExecutionEvent(a['item_id'], statuses.RUNNING))
                    inflight.append(a['item_id'])
            else:
                c.update_task_state(t['id'], 0, events.ActionExecutionEvent(statuses.RUNNING))
                inflight.append(t['id'])
    def item(i, st):
        inflight.remove(i)
        acc[i] = 'r%d' % i
        c.update_task_state('t1', 0, events.TaskItemActionExecutionEvent(i, st, result='r%d' % i, accumulated_result=list(acc)))
    dispatch()             # 0,1
    item(1, statuses.SUCCEEDED); dispatch()   # 2
    item(0, statuses.FAILED); dispatch()      # 3
    if pause:
        c.request_workflow_status(statuses.PAUSING)
    item(3, statuses.SUCCEEDED); dispatch()
    item(2, statuses.SUCCEEDED); dispatch()
    if pause:
        print('  at rest:', c.get_workflow_status(), inflight)
        c.request_workflow_status(statuses.RESUMING); dispatch()
    while inflight:
        x = inflight[0]
        if isinstance(x, int): item(x, statuses.SUCCEEDED)
        else:
            inflight.remove(x); c.update_task_state(x, 0, events.ActionExecutionEvent(statuses.SUCCEEDED))
        dispatch()
    c.render_workflow_output()
    return c.get_workflow_status(), c.get_workflow_output()
print(run(False)); print(run(True))
